#!/bin/sh
# usage: store_seed.sh <worktree> <seeded-id>   copies .seed/* of a sub-agent's worktree to /verif/seeded/<id>/
wt=$1; id=$2; d=/verif/seeded/$id
mkdir -p $d
cp $wt/.seed/patch.diff $wt/.seed/demo_test.go.txt $wt/.seed/meta.json $d/
[ -f $wt/.seed/notes.md ] && cp $wt/.seed/notes.md $d/
ls $d
