#!/bin/sh
# Builds the gosx engine offline from files on disk (x/tools v0.48.0 from the module cache, go1.26.2 toolchain).
set -e
cd "$(dirname "$0")/gosx"
export GOFLAGS=-mod=mod GOPROXY=off CGO_ENABLED=0
unset GOSUMDB || true
mkdir -p bin
go build -o bin/gosx ./cmd/gosx
echo "gosx built: $(ls -la bin/gosx)"
