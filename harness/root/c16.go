package main

import (
	"go/token"

	"mvdan.cc/garble/internal/symx"
)

// recHasher replaces the package-level sha256 hasher: it records what is
// written and answers Sum through symx.Digest (sha256; uninterpreted and
// collision-free on symbolic input).
type recHasher struct {
	buf  []byte
	sums [][]byte // inputs of every Sum call
	// when forced is non-nil, Sum returns it instead of the digest
	forced []byte
}

func (h *recHasher) Write(p []byte) (int, error) { h.buf = append(h.buf, p...); return len(p), nil }
func (h *recHasher) Reset()                      { h.buf = h.buf[:0] }
func (h *recHasher) Size() int                   { return 32 }
func (h *recHasher) BlockSize() int              { return 64 }
func (h *recHasher) Sum(b []byte) []byte {
	in := append([]byte(nil), h.buf...)
	h.sums = append(h.sums, in)
	if h.forced != nil {
		return append(b, h.forced...)
	}
	d := symx.Digest(in)
	return append(b, d[:]...)
}

func isIdentByte(b byte, first bool) bool {
	letter := symx.Or(symx.Or(b-'a' < 26, b-'A' < 26), b == '_')
	return symx.Or(letter, symx.And(!first, b-'0' < 10))
}

// checkName asserts the well-formedness part of C16 for one result.
func checkName(res string, origIsIdent, origExported bool) {
	n := len(res)
	symx.Assert(n >= 6 && n <= 12, "length in 6..12")
	ok := true
	for i := 0; i < n; i++ {
		ok = symx.And(ok, isIdentByte(res[i], i == 0))
	}
	symx.Assert(ok, "every byte in [A-Za-z0-9_], first not a digit")
	symx.Assert(res != "_", "not the blank identifier")
	if origIsIdent {
		up := 'A' <= res[0] && res[0] <= 'Z'
		symx.Assert(up == origExported, "exported iff original exported")
	}
}

// H_C16_wellformed: for all 2^80 hash prefixes and every name class, the
// result is a valid identifier of 6..12 bytes with the right export status.
func H_C16_wellformed() {
	h := &recHasher{forced: symx.Bytes("sum", 32)}
	hasher = h
	flagSeed = seedFlag{}
	names := []string{"foo", "Foo", "_foo", "f", "F", "_", "pkg/path", "file.go:12", "ñandu", "Ñandu", "x9", "a.b"}
	name := names[symx.Choose(len(names))]
	res := hashWithCustomSalt([]byte("salt"), name)
	symx.Reach("hashed")
	checkName(res, token.IsIdentifier(name), token.IsExported(name))
	symx.Observe("name", name, res)
}
