package main

import (
	"bytes"
	"strings"

	"mvdan.cc/garble/internal/symx"
)

// C01 (assembly references are rewritten to exactly the names Go code gets)
// and C14 (nothing is rewritten for packages outside GOGARBLE).

func asmWorld(curObf, depObf bool) (*transformer, *listedPackage, *listedPackage) {
	sharedCache = &sharedCacheType{ListedPackages: newListedPackages()}
	flagSeed = seedFlag{bytes: []byte("12345678")}
	flagDebug = false
	cur := &listedPackage{Name: "cur", ImportPath: "example.com/cur", ToObfuscate: curObf, Imports: []string{"example.com/dep"}}
	dep := &listedPackage{Name: "dep", ImportPath: "example.com/dep", ToObfuscate: depObf}
	rt := &listedPackage{Name: "runtime", ImportPath: "runtime", Standard: true}
	sharedCache.ListedPackages.set(cur.ImportPath, cur)
	sharedCache.ListedPackages.set(dep.ImportPath, dep)
	sharedCache.ListedPackages.set("runtime", rt)
	// an obfuscated std package that keeps its import path and some of its names (compiler intrinsics)
	bits := &listedPackage{Name: "bits", ImportPath: "math/bits", Standard: true, ToObfuscate: depObf}
	sharedCache.ListedPackages.set(bits.ImportPath, bits)
	cur.Imports = append(cur.Imports, "math/bits")
	return &transformer{curPkg: cur}, cur, dep
}

func asciiIdent(name string, n int) string {
	s := symx.String(name, n)
	for i := 0; i < len(s); i++ {
		b := s[i]
		symx.Assume(b >= '0') // the hull of the classes below, as plain bounds
		symx.Assume(b <= 'z')
		letter := symx.Or(symx.Or(b-'a' < 26, b-'A' < 26), b == '_')
		if i == 0 {
			symx.Assume(letter)
		} else {
			symx.Assume(symx.Or(letter, b-'0' < 10))
		}
	}
	return s
}

func obfName(lpkg *listedPackage, name string) string {
	if lpkg.ToObfuscate && !compilerIntrinsics[lpkg.ImportPath][name] {
		return hashWithPackage(lpkg, name)
	}
	return name
}

// obfPath is the package qualifier as the assembler reads it: the (possibly
// kept) import path with the assembler's stand-ins for '/' and '.'.
func obfPath(lpkg *listedPackage, asmPath string) string {
	if lpkg.ToObfuscate {
		p := lpkg.obfuscatedImportPath()
		p = strings.ReplaceAll(p, "/", "∕")
		return strings.ReplaceAll(p, ".", "·")
	}
	return asmPath
}

// H_C01_asm_names: every reference shape in an assembly line is rewritten to
// the obfuscated import path and exactly the name hashWithPackage gives the Go
// declaration; everything else is copied verbatim.
func H_C01_asm_names() {
	curObf, depObf := symx.Choose(2) == 1, symx.Choose(2) == 1
	tf, cur, dep := asmWorld(curObf, depObf)
	rt, _ := sharedCache.ListedPackages.get("runtime")
	name := asciiIdent("name", 1+symx.Choose(tier(1, 2)))
	var in, want string
	switch symx.Choose(12) {
	case 10: // a compiler intrinsic of another package keeps its name, and that package keeps its path
		bits, _ := sharedCache.ListedPackages.get("math/bits")
		in = "JMP math∕bits·Add64(SB); CALL ·" + name + "(SB)"
		want = "JMP " + obfPath(bits, "math∕bits") + "·" + obfName(bits, "Add64") + "(SB); CALL ·" + obfName(cur, name) + "(SB)"
	case 11: // an ordinary function of that package is renamed; a local function that happens to share an intrinsic's name too
		bits, _ := sharedCache.ListedPackages.get("math/bits")
		in = "CALL math∕bits·" + name + "(SB); CALL ·Add64(SB)"
		want = "CALL " + obfPath(bits, "math∕bits") + "·" + obfName(bits, name) + "(SB); CALL ·" + obfName(cur, "Add64") + "(SB)"
	case 0: // unqualified definition
		in = "TEXT ·" + name + "(SB),$0-24"
		want = "TEXT ·" + obfName(cur, name) + "(SB),$0-24"
	case 1: // qualified by the current package's name
		in = "\tCALL cur·" + name + "(SB)"
		want = "\tCALL " + obfPath(cur, "cur") + "·" + obfName(cur, name) + "(SB)"
	case 2: // another package, import path with a dot and a slash
		in = "JMP example·com∕dep·" + name + "(SB)"
		want = "JMP " + obfPath(dep, "example·com∕dep") + "·" + obfName(dep, name) + "(SB)"
	case 3: // the runtime is never obfuscated
		in = "MOVQ runtime·" + name + "(SB), AX"
		want = "MOVQ " + obfPath(rt, "runtime") + "·" + obfName(rt, name) + "(SB), AX"
	case 4: // two references on one line
		name2 := asciiIdent("name2", 1)
		in = "LEAQ ·" + name + "(SB), ·" + name2 + "+8(SB)"
		want = "LEAQ ·" + obfName(cur, name) + "(SB), ·" + obfName(cur, name2) + "+8(SB)"
	case 5: // no reference at all: arbitrary ASCII text
		in = symx.String("text", 1+symx.Choose(4))
		for i := 0; i < len(in); i++ {
			symx.Assume(in[i] < 0x80)
		}
		want = in
	case 7: // a reference into another package followed by an unqualified one
		name2 := asciiIdent("name2", 1)
		in = "CALL example·com∕dep·" + name + "(SB); JMP ·" + name2 + "(SB)"
		want = "CALL " + obfPath(dep, "example·com∕dep") + "·" + obfName(dep, name) + "(SB); JMP ·" + obfName(cur, name2) + "(SB)"
	case 8: // several lines: unqualified, runtime, unqualified
		name2 := asciiIdent("name2", 1)
		in = "TEXT ·" + name + "(SB)\n\tCALL runtime·" + name2 + "(SB)\n\tJMP ·" + name2 + "(SB)\n"
		want = "TEXT ·" + obfName(cur, name) + "(SB)\n\tCALL " + obfPath(rt, "runtime") + "·" + obfName(rt, name2) + "(SB)\n\tJMP ·" + obfName(cur, name2) + "(SB)\n"
	case 9: // current package by name, then the dependency
		name2 := asciiIdent("name2", 1)
		in = "MOVQ cur·" + name + "(SB), AX; MOVQ example·com∕dep·" + name2 + "(SB), BX"
		want = "MOVQ " + obfPath(cur, "cur") + "·" + obfName(cur, name) + "(SB), AX; MOVQ " + obfPath(dep, "example·com∕dep") + "·" + obfName(dep, name2) + "(SB), BX"
	case 6: // a reference at the very end of the input, preceded by punctuation
		in = "DATA x+0(SB)/8,$·" + name
		want = "DATA x+0(SB)/8,$·" + obfName(cur, name)
	}
	var buf bytes.Buffer
	tf.replaceAsmNames(&buf, []byte(in))
	symx.Reach("asm")
	symx.Assert(buf.String() == want, "assembly references name what the Go side declares; the rest is verbatim")
}

// H_C14_plain_paths: packages outside GOGARBLE keep their import path and
// package name; obfuscated ones never keep theirs (main excepted).
func H_C14_plain_paths() {
	flagSeed = seedFlag{bytes: []byte("12345678")}
	paths := []string{"example.com/x", "x", "a.b/c-d", "runtime", "reflect", "embed", "math/bits", "internal/abi", "sync/atomic", "time", "os"}
	path := paths[symx.Choose(len(paths))]
	name := []string{"x", "main", "runtime"}[symx.Choose(3)]
	obf := symx.Choose(2) == 1
	p := &listedPackage{Name: name, ImportPath: path, ToObfuscate: obf}
	gotPath := p.obfuscatedImportPath()
	gotName := p.obfuscatedPackageName()
	symx.Reach("paths")
	if name == "main" {
		// the toolchain knows the main package by the path "main"
		symx.Assert(gotPath == "main" && gotName == "main", "package main stays main")
		return
	}
	if !obf {
		symx.Assert(gotPath == path, "a package outside GOGARBLE keeps its import path")
		symx.Assert(gotName == name, "a package outside GOGARBLE keeps its package name")
		return
	}
	_, intr := compilerIntrinsics[path]
	_, rl := runtimeAndLinknamed[path]
	special := path == "runtime" || path == "reflect" || path == "embed"
	if intr || rl || special {
		symx.Assert(gotPath == path, "toolchain-special packages keep their import path")
		return
	}
	symx.Assert(len(gotPath) >= 6 && len(gotPath) <= 12, "an obfuscated import path is a hashed name")
	symx.Assert(gotName == hashWithPackage(p, name) && gotName != name, "the package clause is hashed with the package's own salt")
	symx.Assert(gotPath == hashWithPackage(p, path), "the import path is hashed with the package's own salt")
}
