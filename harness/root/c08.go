package main

import (
	"strings"

	"mvdan.cc/garble/internal/symx"
)

// C08-K1: the replacer injected into internal/abi restores names exactly like
// strings.NewReplacer on the same pairs, for every input string.

// refReplace is the documented semantics: scan left to right without
// overlapping matches; at each position the earliest-listed key that matches wins.
func refReplace(pairs []string, s string) string {
	var out []byte
	for i := 0; i < len(s); {
		matched := false
		for k := 0; k < len(pairs); k += 2 {
			key := pairs[k]
			if key != "" && len(s)-i >= len(key) && s[i:i+len(key)] == key {
				out = append(out, pairs[k+1]...)
				i += len(key)
				matched = true
				break
			}
		}
		if !matched {
			out = append(out, s[i])
			i++
		}
	}
	return string(out)
}

var replacerKeySets = [][]string{
	{"a", "1"},
	{"abcd", "1", "abce", "2"}, // second key splits a prefix node after 2 common bytes
	{"ab", "X", "a", "Y"},
	{"a", "Y", "ab", "X"},
	{"abc", "1", "ab", "2", "a", "3"},
	{"a", "3", "ab", "2", "abc", "1"},
	{"a", "", "b", "ZZ"},
	{"aa", "1", "aaa", "2"},
	{"aaa", "2", "aa", "1"},
	{"ab", "1", "bc", "2"},
	{"abc", "1", "bcd", "2", "cd", "3"},
	{"ba", "Q", "ab", "R", "b", "S"},
	{"AQ45rr", "Field", "ipq5aQ", "other", "AQ45", "short"},
	{"b", "bb", "bb", "b"},
	{"c", "a", "a", "c"},
}

func sortedPairs(p []string) []string {
	type kv struct{ k, v string }
	var l []kv
	for i := 0; i < len(p); i += 2 {
		l = append(l, kv{p[i], p[i+1]})
	}
	for i := 1; i < len(l); i++ { // insertion sort (stable)
		for j := i; j > 0 && l[j].k < l[j-1].k; j-- {
			l[j], l[j-1] = l[j-1], l[j]
		}
	}
	var out []string
	for _, e := range l {
		out = append(out, e.k, e.v)
	}
	return out
}

// H_C08_replacer: _genericReplacer against the reference and strings.NewReplacer.
func H_C08_replacer() {
	nsets := tier(9, len(replacerKeySets))
	pairs := replacerKeySets[symx.Choose(nsets)]
	if symx.Choose(2) == 1 {
		pairs = sortedPairs(pairs) // the order reflectMainPostPatch emits
	}
	longest := 0
	for k := 0; k < len(pairs); k += 2 {
		longest = max(longest, len(pairs[k]))
	}
	// inputs long enough to contain the longest key
	n := 1 + symx.Choose(max(3, min(longest, tier(4, 5))))
	s := symx.String("s", n)
	// bytes of interest: the key alphabet plus "anything else"
	r := _makeGenericReplacer(pairs)
	got := r.Replace(s)
	symx.Reach("replaced")
	want := refReplace(pairs, s)
	symx.Assert(got == want, "injected replacer agrees with the documented semantics")
	multi := false
	for k := 0; k < len(pairs); k += 2 {
		multi = multi || len(pairs[k]) > 1
	}
	if multi {
		// strings.NewReplacer uses the same generic algorithm only when some key
		// is longer than one byte (otherwise its byte-table replacers, which are
		// not the code garble injects)
		std := strings.NewReplacer(pairs...).Replace(s)
		symx.Assert(got == std, "injected replacer agrees with strings.NewReplacer")
	}
	symx.Observe("replace", s, got)
}

// H_C08_postpatch: reflectMainPostPatch emits every pair once, sorted by the
// obfuscated name, quoted so that the Go lexer reads back the same strings.
func H_C08_postpatch() {
	k1 := symx.String("k1", 1+symx.Choose(tier(1, 2)))
	k2 := symx.String("k2", 1+symx.Choose(2))
	v1 := symx.String("v1", 1+symx.Choose(tier(1, 2)))
	v2 := symx.String("v2", 1)
	for _, s := range []string{k1, k2, v1, v2} {
		for i := 0; i < len(s); i++ {
			symx.Assume(s[i] >= 0x20 && s[i] < 0x7f) // names are printable ASCII identifiers and type strings
		}
	}
	symx.Assume(k1 != k2)
	flagSeed = seedFlag{bytes: []byte("12345678")}
	lpkg := &listedPackage{ImportPath: "main", ToObfuscate: true} // the harness names the table variable the way an obfuscated main package does; the agreement with the build in both cases is H_C08_name_table_installed's subject
	obfVar := hashWithPackage(lpkg, "_originalNamePairs")
	file := []byte("package main\nvar " + obfVar + " = []string{}\n")
	out := reflectMainPostPatch(file, lpkg, pkgCache{ReflectObjectNames: map[string]string{k1: v1, k2: v2}})
	symx.Reach("patched")
	lo, hi, vlo, vhi := k1, k2, v1, v2
	if symx.Concretize(symx.Ite(k2 < k1, 1, 0)) == 1 {
		lo, hi, vlo, vhi = k2, k1, v2, v1
	}
	want := "package main\nvar " + obfVar + " = []string{" + quoteGo(lo) + ", " + quoteGo(vlo) + "," + quoteGo(hi) + ", " + quoteGo(vhi) + ",}\n"
	symx.Assert(string(out) == want, "pairs emitted once each, sorted, Go-quoted")
}

// quoteGo quotes printable ASCII the way a Go string literal must be written.
func quoteGo(s string) string {
	out := []byte{'"'}
	for i := 0; i < len(s); i++ {
		if symx.Concretize(symx.Ite(symx.Or(s[i] == '"', s[i] == '\\'), 1, 0)) == 1 {
			out = append(out, '\\')
		}
		out = append(out, s[i])
	}
	return string(append(out, '"'))
}
