package main

import (
	"go/ast"
	"go/types"
	"os"
	"path/filepath"
	"strings"

	"golang.org/x/tools/go/ssa"

	"mvdan.cc/garble/internal/symx"
)

const c19LibSrc = `package lib

// Exported is the first file's only declaration.
func Exported(x int) int { return helper(x) + 1 }

func helper(x int) int { return x * 2 }
`

// H_C19_debugdir_artifacts: with -debugdir, the real transformCompile of a
// package with two Go files leaves three copies of every garbled file: the
// one handed to the compiler (under the shared temp dir), the one under
// <debugdir>/garbled, and the one in the cached debug artifacts that a later
// warm build restores the directory from. All three must be the same bytes for
// every file ("a directory it does own ends up holding the complete source
// and garbled trees of the build whether or not the caches were warm"), and
// the cached sources must be the original files. Inside the engine loadPkgCache
// and the exclusive create are replaced by their effects and the artifacts are
// captured where they are handed to the cache; natively the real cache is used
// and read back.
func H_C19_debugdir_artifacts() {
	defer symx.FSCleanup()
	flagSeed = seedFlag{}
	if symx.Choose(2) == 1 {
		flagSeed = seedFlag{bytes: symx.Bytes("seed", 8)}
	}
	flagLiterals, flagTiny, flagControlFlow, flagDebug = false, false, false, false
	symx.Stub("mvdan.cc/garble.hashWithCustomSalt", c13HashSummary)
	symx.DigestPrefixFree(5)
	id := symx.Bytes("actionID", 32)
	id2 := append([]byte{symx.Byte("actionID2")}, id[1:]...)
	symx.Assume(id2[0] != id[0])
	root := symx.FSRoot()
	var lpkg *listedPackage
	var captured *cachedDebugArtifacts
	if symx.Symbolic() {
		lpkg = c13Engine("lib", c19LibSrc, true, id, id2)
		symx.Stub("mvdan.cc/garble.loadPkgCache", func(l *listedPackage, pkg *types.Package, files []*ast.File, info *types.Info, ssaPkg *ssa.Package) (pkgCache, error) {
			return pkgCache{ReflectAPIs: map[string]map[int]bool{}, ReflectObjectNames: map[string]string{}}, nil
		})
		// the directory name is a hashed name (symbolic here); the file-system model needs concrete paths
		symx.Stub("(*mvdan.cc/garble.listedPackage).obfuscatedSourceDir", func(l *listedPackage) string { return "obfuscated-dir" })
		symx.Stub("mvdan.cc/garble.createExclusive", func(name string) (*os.File, error) {
			if symx.FSExists(name) {
				return nil, os.ErrExist
			}
			return os.Create(name)
		})
		symx.Stub("mvdan.cc/garble.saveDebugArtifactsForPkg", func(l *listedPackage, kind string, a cachedDebugArtifacts) error {
			captured = &a
			return nil
		})
	} else {
		defer c13Native("lib", c19LibSrc, true)()
		if _, err := c13Map(); err != nil {
			symx.Fail("garble map failed: " + err.Error())
			return
		}
		lpkg, _ = sharedCache.ListedPackages.get(c13Path)
		if lpkg == nil {
			symx.Fail("go list did not list " + c13Path)
			return
		}
	}
	flagDebugDir = root + "/dbg"
	sharedTempDir = root + "/shared"
	symx.FSMkdir(sharedTempDir)
	symx.FSMkdir(flagDebugDir)
	symx.FSWriteFile(root+"/importcfg", "# import config\n")
	args := []string{"-p", lpkg.ImportPath, "-importcfg", root + "/importcfg", "-pack"}
	var srcPaths []string
	for _, name := range lpkg.CompiledGoFiles {
		if !strings.HasPrefix(name, "/") {
			name = lpkg.Dir + "/" + name
		}
		srcPaths = append(srcPaths, name)
	}
	args = append(args, srcPaths...)
	reflectPatchFile = ""
	tf := &transformer{curPkg: lpkg, origImporter: importerForPkg(lpkg)}
	out, err := tf.transformCompile(args)
	symx.Reach("compiled")
	if err != nil {
		symx.Fail("transformCompile: " + err.Error())
		return
	}
	var artifacts cachedDebugArtifacts
	if symx.Symbolic() {
		if captured == nil {
			symx.Fail("no debug artifacts were handed to the cache")
			return
		}
		artifacts = *captured
	} else {
		fsCache, err := openCache()
		if err != nil {
			symx.Fail("open cache: " + err.Error())
			return
		}
		a, ok, err := loadDebugArtifactsForPkg(fsCache, lpkg, debugCacheKindCompile)
		if err != nil || !ok {
			symx.Fail("the cached debug artifacts cannot be loaded")
			return
		}
		artifacts = a
	}
	_, newPaths := splitFlagsFromFiles(out, ".go")
	symx.Assert(len(newPaths) == len(srcPaths), "every source file is handed to the compiler")
	symx.Assert(len(artifacts.GarbledFiles) == len(srcPaths) && len(artifacts.SourceFiles) == len(srcPaths), "the cached artifacts hold every file")
	for i, p := range newPaths {
		if i >= len(srcPaths) {
			break
		}
		base := filepath.Base(srcPaths[i])
		symx.Assert(strings.HasPrefix(p, sharedTempDir+"/"), "obfuscated sources are written below the shared temp dir only")
		compiled, err1 := os.ReadFile(p)
		inDir, err2 := os.ReadFile(filepath.Join(flagDebugDir, debugDirGarbledSubdir, lpkg.ImportPath, base))
		orig, err3 := os.ReadFile(srcPaths[i])
		symx.Assert(err1 == nil && err2 == nil && err3 == nil, "the compiled, debug-dir and original files exist")
		symx.Assert(string(inDir) == string(compiled), "the debug dir holds the garbled file the compiler gets: "+base)
		symx.Assert(string(artifacts.GarbledFiles[base]) == string(compiled), "the cached garbled file is the one the compiler gets: "+base)
		symx.Assert(string(artifacts.SourceFiles[base]) == string(orig), "the cached source file is the original: "+base)
		origNow, _ := os.ReadFile(srcPaths[i])
		symx.Assert(string(origNow) == string(orig), "the source tree is untouched")
	}
	symx.Observe("files", len(newPaths))
}
