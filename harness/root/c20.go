package main

import (
	"mvdan.cc/garble/internal/symx"
)

// C20: command lines are split the way the go command splits them.
// goDocFlags is generated on every run from `go help build|testflag|test`.

// refSplit is the reference of the property statement: flags end at the first
// argument that does not start with "-"; "-f=v" is one argument; a boolean
// flag takes no value; every other flag consumes the next argument.
func refSplit(all []string, isBool func(name string) bool) int {
	i := 0
	for i < len(all) {
		a := all[i]
		if len(a) == 0 || a[0] != '-' {
			break
		}
		name := a
		if len(name) >= 2 && name[1] == '-' {
			name = name[1:]
		}
		hasEq := false
		for k := 0; k < len(name); k++ {
			if name[k] == '=' {
				name, hasEq = name[:k], true
				break
			}
		}
		if hasEq || isBool(name) {
			i++
		} else {
			i += 2
		}
	}
	if i > len(all) {
		i = len(all)
	}
	return i
}

func docIsBool(name string) bool {
	for _, f := range goDocFlags {
		if f.Name == name {
			return f.Bool
		}
	}
	return false
}

func sameStrings(a, b []string) bool {
	if len(a) != len(b) {
		return false
	}
	eq := true
	for i := range a {
		eq = symx.And(eq, a[i] == b[i])
	}
	return eq
}

// tier picks a bound by tier.
func tier(quick, thorough int) int {
	if symx.Thorough() {
		return thorough
	}
	return quick
}

// pkgArg is a package/file argument: non-empty, not starting with "-".
func pkgArg(name string) string {
	p := symx.String(name, 1+symx.Choose(tier(1, 2)))
	symx.Assume(p[0] != '-')
	return p
}

// spell renders flag f in one of the accepted spellings, returning the
// arguments it occupies.
func spell(f goDocFlag, form int, v string) []string {
	switch form {
	case 0: // -f [v]
		if f.Bool {
			return []string{f.Name}
		}
		return []string{f.Name, v}
	case 1: // --f [v]
		if f.Bool {
			return []string{"-" + f.Name}
		}
		return []string{"-" + f.Name, v}
	case 2: // -f=v
		return []string{f.Name + "=" + v}
	default: // --f=v
		return []string{"-" + f.Name + "=" + v}
	}
}

// H_C20_split_each: every documented flag, in every spelling, followed by
// package arguments, is split exactly at the first package argument.
func H_C20_split_each() {
	f := goDocFlags[symx.Choose(len(goDocFlags))]
	form := symx.Choose(4)
	v := symx.String("v", symx.Choose(tier(2, 3))) // the value may look like a flag or contain '='
	if f.Bool && form >= 2 {
		v = []string{"true", "false", "1"}[symx.Choose(tier(1, 3))]
	}
	all := spell(f, form, v)
	nflags := len(all)
	npk := symx.Choose(tier(2, 3))
	for i := 0; i < npk; i++ {
		all = append(all, pkgArg("p"))
	}
	symx.Reach("split")
	in := append([]string(nil), all...)
	flags, args := splitFlagsFromArgs(all)
	symx.Observe("split", f.Name, form, len(flags), len(args))
	symx.Assert(sameStrings(flags, in[:nflags]), "flags are exactly the flag arguments: "+f.Name)
	symx.Assert(sameStrings(args, in[nflags:]), "args are exactly the package arguments: "+f.Name)
	symx.Assert(refSplit(in, docIsBool) == nflags, "reference agrees with the construction")
}

// H_C20_split_vectors: vectors of up to 3 flags drawn from class
// representatives followed by up to 2 package arguments.
func H_C20_split_vectors() {
	reps := []string{"-race", "-v", "-json", "-tags", "-ldflags", "-run", "-o", "-C", "-short", "-p"}
	var all []string
	n := symx.Choose(3)
	for i := 0; i < n; i++ {
		name := reps[symx.Choose(tier(6, len(reps)))]
		var f goDocFlag
		for _, g := range goDocFlags {
			if g.Name == name {
				f = g
			}
		}
		if f.Name == "" {
			symx.Assume(false)
		}
		v := symx.String("v", 1+symx.Choose(tier(1, 2)))
		form := symx.Choose(3)
		if f.Bool && form == 2 {
			v = "true"
		}
		all = append(all, spell(f, form, v)...)
	}
	nflags := len(all)
	npk := symx.Choose(tier(2, 3))
	for i := 0; i < npk; i++ {
		all = append(all, pkgArg("p"))
	}
	symx.Reach("split")
	in := append([]string(nil), all...)
	flags, args := splitFlagsFromArgs(all)
	symx.Assert(sameStrings(flags, in[:nflags]), "flags are exactly the flag arguments")
	symx.Assert(sameStrings(args, in[nflags:]), "args are exactly the package arguments")
	symx.Assert(sameStrings(append(append([]string(nil), flags...), args...), in), "nothing lost, order kept")
}

// H_C20_split_symbolic: fully symbolic short arguments against the reference,
// with boolean-ness taken from garble's own table (decides the index
// arithmetic for all inputs, including a trailing flag without value).
func H_C20_split_symbolic() {
	n := 1 + symx.Choose(tier(2, 3))
	all := make([]string, n)
	for i := range all {
		a := symx.String("a", 1+symx.Choose(3))
		// double-dash spellings are decided by H_C20_split_each against the documented tables
		symx.Assume(!(len(a) >= 2 && a[0] == '-' && a[1] == '-'))
		all[i] = a
	}
	in := append([]string(nil), all...)
	symx.Reach("split")
	flags, args := splitFlagsFromArgs(all)
	k := refSplit(in, func(name string) bool { return booleanFlags[name] })
	symx.Assert(len(flags) == k && len(args) == len(in)-k, "split point equals the reference")
	symx.Assert(sameStrings(append(append([]string(nil), flags...), args...), in), "nothing lost, order kept")
}

var forwardExcluded = map[string]bool{
	// reporting / execution mode only, or always set by garble itself
	"-a": true, "-n": true, "-x": true, "-v": true, "-json": true, "-work": true,
	"-trimpath": true, "-toolexec": true, "-buildvcs": true,
}

// H_C20_forward: every build-affecting flag reaches the package listing with
// its value; test-only flags never do; order is kept.
func H_C20_forward() {
	type item struct {
		f  goDocFlag
		sp []string
	}
	var flags []string
	var items []item
	n := 1 + symx.Choose(tier(1, 2))
	for i := 0; i < n; i++ {
		f := goDocFlags[symx.Choose(len(goDocFlags))]
		if i > 0 {
			// the second flag comes from one representative per class
			f = goDocFlags[[]int{0, 1, 3, 4, 20, 21, len(goDocFlags) - 1, len(goDocFlags) - 2}[symx.Choose(8)]%len(goDocFlags)]
		}
		form := symx.Choose(3)
		v := symx.String("v", 1+symx.Choose(tier(1, 2)))
		if !f.Bool && symx.Choose(2) == 1 {
			// a value that looks like a build flag must stay a value
			v = []string{"-race", "-tags=x", "-cover"}[symx.Choose(3)]
		}
		if f.Bool && form == 2 {
			v = "true"
		}
		sp := spell(f, form, v)
		flags = append(flags, sp...)
		norm := append([]string(nil), sp...)
		if len(norm[0]) >= 2 && norm[0][1] == '-' {
			norm[0] = norm[0][1:] // garble keeps the short form
		}
		items = append(items, item{f, norm})
	}
	symx.Reach("forward")
	got, _ := filterForwardBuildFlags(flags)
	j := 0
	for _, it := range items {
		matches := j+len(it.sp) <= len(got) && sameStrings(got[j:j+len(it.sp)], it.sp)
		switch {
		case it.f.Build && !forwardExcluded[it.f.Name]:
			symx.Assert(matches, "build-affecting flag forwarded with its value, in order: "+it.f.Name)
			j += len(it.sp)
		case it.f.Build:
			// reporting-only or garble-controlled build flags: either way is fine
			if symx.Concretize(symx.Ite(matches, 1, 0)) == 1 {
				j += len(it.sp)
			}
		default:
			// test-only flags must not reach `go list`
		}
	}
	symx.Assert(j == len(got), "nothing but documented build flags is forwarded")
}

func hasPrefix(s, p string) bool { return len(s) >= len(p) && s[:len(p)] == p }

// isGarbleFlagShape is the anchored shape of garble's own flags.
func isGarbleFlagShape(a string) bool {
	names := []string{"literals", "tiny", "debug", "debugdir", "seed"}
	for d := 1; d <= 2; d++ {
		if len(a) < d+1 {
			continue
		}
		dashes := true
		for k := 0; k < d; k++ {
			dashes = dashes && a[k] == '-'
		}
		if !dashes {
			continue
		}
		rest := a[d:]
		for _, n := range names {
			if rest == n || hasPrefix(rest, n+"=") {
				return true
			}
		}
	}
	return false
}

// H_C20_garbleflag_values: arguments that are not garble flags are never
// rejected as such, in particular values that merely contain a flag name.
func H_C20_garbleflag_values() {
	cands := []string{"bin/app-debug", "foo-tiny", "-tags=foo-tiny", "-o=x-seed", "-ldflags=-X=main.v=a-debug", "x-literals", "-run=Test-seed=1", "-debugx", "-tinyfoo=1", "a-debugdir=1"}
	a := cands[symx.Choose(len(cands))]
	symx.Reach("rx")
	symx.Assert(!isGarbleFlagShape(a), "candidate is not a garble flag")
	symx.Assert(!rxGarbleFlag.MatchString(a), "not a garble flag, must not be rejected: "+a)
}

// H_C20_garbleflag_positive: every spelling of garble's own flags is rejected.
func H_C20_garbleflag_positive() {
	names := []string{"literals", "tiny", "debug", "debugdir", "seed"}
	n := names[symx.Choose(len(names))]
	a := "-" + n
	if symx.Choose(2) == 1 {
		a = "-" + a
	}
	if symx.Choose(2) == 1 {
		a += "=" + symx.String("v", symx.Choose(3))
	}
	symx.Reach("rx")
	symx.Assert(rxGarbleFlag.MatchString(a), "garble flag after the command must be rejected")
}

// H_C20_reject_unknown: reverse and map reject every flag that is not a build
// flag, in every spelling, and accept build flags.
func H_C20_reject_unknown() {
	f := goDocFlags[symx.Choose(len(goDocFlags))]
	form := symx.Choose(3)
	v := symx.String("v", 1+symx.Choose(2))
	if f.Bool && form == 2 {
		v = "true"
	}
	flags := spell(f, form, v)
	symx.Reach("reject")
	err := rejectUnknownBuildFlags(flags)
	if f.Build && forwardBuildFlags[f.Name] {
		symx.Assert(err == nil, "build-affecting flags are accepted by reverse/map: "+f.Name)
	}
	if !f.Build {
		symx.Assert(err != nil, "non-build flags are rejected by reverse/map: "+f.Name)
	}
}
