package main

import (
	"os"
	"path/filepath"
	"strings"

	"mvdan.cc/garble/internal/symx"
)

// H_C19_debugdir_asm: the assembly counterpart of H_C19_debugdir_artifacts.
// With -debugdir, the real transformAsm (first assembler run, -gensymabis) of
// a package with two assembly files and two headers writes every obfuscated
// file below the shared temp dir and under <debugdir>/garbled, and hands the
// cache one set of debug artifacts that a later warm build restores the
// directory from. For every file the three copies must be the same bytes and
// the cached source the original. The files consist of whole-line comments
// (kept verbatim by transformAsm) with symbolic letters and an #include.
func H_C19_debugdir_asm() {
	defer symx.FSCleanup()
	flagSeed = seedFlag{}
	flagLiterals, flagTiny, flagControlFlow, flagDebug = false, false, false, false
	root := symx.FSRoot()
	dir := root + "/m"
	symx.FSMkdir(dir)
	letters := func(tag string) string {
		s := symx.String(tag, 2)
		symx.Assume(s[0] >= 'a' && s[0] <= 'z' && s[1] >= 'a' && s[1] <= 'z')
		return s
	}
	srcs := map[string]string{
		"a.s":   "//" + letters("a") + "\n#include \"" + dir + "/one.h\"\n",
		"b.s":   "//" + letters("b") + "\n#include \"" + dir + "/two.h\"\n//end\n",
		"one.h": "//" + letters("h") + "\n",
		"two.h": "//" + letters("k") + "\n//two\n",
	}
	for name, content := range srcs {
		symx.FSWriteFile(dir+"/"+name, content)
	}
	lpkg := &listedPackage{Name: "m", ImportPath: "example.com/m", Dir: dir, ToObfuscate: true, SFiles: []string{"a.s", "b.s"}}
	copy(lpkg.GarbleActionID[:], "0123456789abcdef0123456789abcdef")
	sharedCache = &sharedCacheType{ListedPackages: newListedPackages(), GOGARBLE: "*", BinaryContentID: []byte("0123456789abcdef"), CacheDir: root + "/cache"}
	sharedCache.GoEnv.GOOS, sharedCache.GoEnv.GOARCH = "linux", "amd64"
	sharedCache.ListedPackages.set(lpkg.ImportPath, lpkg)
	flagDebugDir = root + "/dbg"
	sharedTempDir = root + "/shared"
	symx.FSMkdir(sharedTempDir)
	symx.FSMkdir(flagDebugDir)

	var captured *cachedDebugArtifacts
	if symx.Symbolic() {
		symx.Stub("mvdan.cc/garble.createExclusive", func(name string) (*os.File, error) {
			if symx.FSExists(name) {
				return nil, os.ErrExist
			}
			return os.Create(name)
		})
		symx.Stub("mvdan.cc/garble.saveDebugArtifactsForPkg", func(l *listedPackage, kind string, a cachedDebugArtifacts) error {
			if kind == debugCacheKindAsm {
				captured = &a
			}
			return nil
		})
	}
	tf := &transformer{curPkg: lpkg}
	out, err := tf.transformAsm([]string{"-p", lpkg.ImportPath, "-trimpath", dir + "=>", "-gensymabis", "-o", root + "/symabis", dir + "/a.s", dir + "/b.s"})
	symx.Reach("assembled")
	if err != nil {
		symx.Fail("transformAsm: " + err.Error())
		return
	}
	var artifacts cachedDebugArtifacts
	if symx.Symbolic() {
		if captured == nil {
			symx.Fail("no debug artifacts were handed to the cache")
			return
		}
		artifacts = *captured
	} else {
		fsCache, err := openCache()
		if err != nil {
			symx.Fail("open cache: " + err.Error())
			return
		}
		a, ok, err := loadDebugArtifactsForPkg(fsCache, lpkg, debugCacheKindAsm)
		if err != nil || !ok {
			symx.Fail("the cached debug artifacts cannot be loaded")
			return
		}
		artifacts = a
	}
	_, newPaths := splitFlagsFromFiles(out, ".s")
	symx.Assert(len(newPaths) == 2, "both assembly files are handed to the assembler")
	symx.Assert(len(artifacts.GarbledFiles) == 4 && len(artifacts.SourceFiles) == 4, "the cached artifacts hold both assembly files and both headers")
	for i, base := range []string{"a.s", "b.s", "one.h", "two.h"} {
		inDir, err := os.ReadFile(filepath.Join(flagDebugDir, debugDirGarbledSubdir, lpkg.ImportPath, base))
		if err != nil {
			symx.Fail("the debug dir lacks garbled/" + base)
			continue
		}
		if i < len(newPaths) {
			symx.Assert(strings.HasPrefix(newPaths[i], sharedTempDir+"/"), "obfuscated sources are written below the shared temp dir only")
			given, err := os.ReadFile(newPaths[i])
			symx.Assert(err == nil && string(given) == string(inDir), "the debug dir holds the file the assembler gets: "+base)
		}
		symx.Assert(string(artifacts.GarbledFiles[base]) == string(inDir), "the cached garbled file is the one written for this build: "+base)
		symx.Assert(string(artifacts.SourceFiles[base]) == srcs[base], "the cached source file is the original: "+base)
		now, _ := symx.FSReadFile(dir + "/" + base)
		symx.Assert(now == srcs[base], "the source tree is untouched")
	}
	symx.Observe("files", len(newPaths))
}
