package main

import (
	"encoding/json"
	"io"
	"os"
	"os/exec"
	"strings"
	"time"

	"golang.org/x/mod/module"

	"mvdan.cc/garble/internal/symx"
)

// H_C14_decision: the per-package decision the real appendListedPackages takes
// while it reads `go list` output, and its "matches nothing" error.
//
// The listing is the one `go list -json -deps -test` prints for a module with
//   example.com/m/foo      (package foo, with an internal and an external test)
//   example.com/m/dep      (imports foo; imported by foo's external test, so
//                           cmd/go recompiles it for the test binary)
//   example.com/m/foobar   (a sibling whose path has foo's as a string prefix)
//   example.com/m/foo/sub
// plus a runtime dependency, fmt, and a std package that garble itself adds to
// the listing (runtimeAndLinknamed) although the program does not import it.
// The shape (which variants exist, their ForTest and file counts) was read off
// the real go list once; inside the engine os/exec and the JSON decoder are
// stubbed by that listing, natively a stand-in go command prints it as JSON.

type c14Listed struct {
	pkg    listedPackage
	folded bool // only listed because garble folds it in; not part of the build
}

const c14ID = "AAAAAAAAAAAAAAAAAAAA/BBBBBBBBBBBBBBBBBBBB"

func c14Listing() []c14Listed {
	mk := func(name, path, forTest string, files int, std bool) listedPackage {
		p := listedPackage{Name: name, ImportPath: path, ForTest: forTest, Standard: std, BuildID: c14ID}
		for i := 0; i < files; i++ {
			p.CompiledGoFiles = append(p.CompiledGoFiles, "f"+string(rune('0'+i))+".go")
		}
		return p
	}
	const m = "example.com/m/"
	const variant = " [" + m + "foo.test]"
	return []c14Listed{
		{pkg: mk("abi", "internal/abi", "", 1, true)},
		{pkg: mk("runtime", "runtime", "", 1, true)},
		{pkg: mk("fmt", "fmt", "", 1, true)},
		{pkg: mk("net", "net", "", 1, true), folded: true},
		{pkg: mk("foo", m+"foo", "", 1, false)},
		{pkg: mk("dep", m+"dep", "", 1, false)},
		{pkg: mk("foobar", m+"foobar", "", 1, false)},
		{pkg: mk("sub", m+"foo/sub", "", 1, false)},
		{pkg: mk("foo", m+"foo"+variant, m+"foo", 2, false)},
		{pkg: mk("dep", m+"dep"+variant, m+"foo", 1, false)},
		{pkg: mk("foo_test", m+"foo_test"+variant, m+"foo", 1, false)},
		{pkg: mk("main", m+"foo.test", "", 0, false)},
	}
}

// c14Want is the property's reading of the decision: a package variant is
// obfuscated iff GOGARBLE matches its own import path (the external test
// package foo_test counts as foo), unless garble can never obfuscate it.
func c14Want(patterns string, p *listedPackage) bool {
	path, _, _ := strings.Cut(p.ImportPath, " ")
	if p.ForTest != "" && path == p.ForTest+"_test" {
		path = p.ForTest
	}
	switch {
	case runtimeAndDeps[path], path == "runtime/cgo", path == "crypto/internal/fips140", strings.HasPrefix(path, "crypto/internal/fips140/"):
		return false
	case len(p.CompiledGoFiles) == 0:
		return false
	case p.Name == "main" && strings.HasSuffix(path, ".test"), path == "command-line-arguments", strings.HasPrefix(path, "plugin/unnamed"):
		return true
	}
	return module.MatchPrefixPatterns(patterns, path)
}

func H_C14_decision() {
	defer symx.FSCleanup()
	listing := c14Listing()
	// GOGARBLE: one or two patterns from a dictionary, or "example.com/m/fo" + one symbolic byte
	// (letters, '?', '*', '/' all behave differently)
	dict := []string{"*", "example.com/m", "example.com/m/foo", "example.com/m/dep", "example.com/m/foobar", "example.com/m/foo/sub",
		"example.com/m/foo_test", "example.com", "fmt", "runtime", "net", "nosuch", "example.com/m/fo?", "example.com/*/dep"}
	label := "" // the pattern list as it appears in messages (concrete text)
	pick := func(tag string) string {
		k := symx.Choose(len(dict) + 1)
		if k < len(dict) {
			label = dict[k]
			return dict[k]
		}
		label = "example.com/m/fo<one of o ? * x />"
		b := symx.String(tag, 1)
		symx.Assume(b[0] == 'o' || b[0] == '?' || b[0] == '*' || b[0] == 'x' || b[0] == '/')
		return "example.com/m/fo" + b
	}
	patterns := pick("c0")
	if symx.Choose(tier(1, 1)) == 1 { // a second pattern: not explored in either tier yet
		second := dict[symx.Choose(len(dict))]
		patterns += "," + second
		label += "," + second
	}

	sharedCache = &sharedCacheType{ListedPackages: newListedPackages(), GOGARBLE: patterns, BinaryContentID: []byte("0123456789abcdef")}
	sharedCache.GoEnv.GOOS, sharedCache.GoEnv.GOARCH = "linux", "amd64"
	sharedCache.ForwardBuildFlags = []string{"-test"}

	if symx.Symbolic() {
		next := 0
		sharedCache.GoCmd = "go"
		symx.Stub("time.Now", func() time.Time { return time.Time{} })
		symx.Stub("mvdan.cc/garble.debugSince", func(t time.Time) time.Duration { return 0 })
		symx.Stub("os/exec.Command", func(name string, arg ...string) *exec.Cmd { return &exec.Cmd{Path: name, Args: arg} })
		symx.Stub("(*os/exec.Cmd).StdoutPipe", func(c *exec.Cmd) (io.ReadCloser, error) { return nil, nil })
		symx.Stub("(*os/exec.Cmd).Start", func(c *exec.Cmd) error { return nil })
		symx.Stub("(*os/exec.Cmd).Wait", func(c *exec.Cmd) error { return nil })
		symx.Stub("encoding/json.NewDecoder", func(r io.Reader) *json.Decoder { return new(json.Decoder) })
		symx.Stub("(*encoding/json.Decoder).More", func(d *json.Decoder) bool { return next < len(listing) })
		symx.Stub("(*encoding/json.Decoder).Decode", func(d *json.Decoder, v any) error {
			*v.(*listedPackage) = listing[next].pkg
			next++
			return nil
		})
	} else {
		// a stand-in go command that prints the listing
		dir := symx.FSRoot()
		var sb strings.Builder
		for _, l := range listing {
			data, _ := json.Marshal(&l.pkg)
			sb.Write(data)
			sb.WriteString("\n")
		}
		os.WriteFile(dir+"/listing.json", []byte(sb.String()), 0o666)
		os.WriteFile(dir+"/go", []byte("#!/bin/sh\ncat "+dir+"/listing.json\n"), 0o777)
		sharedCache.GoCmd = dir + "/go"
	}

	err := appendListedPackages([]string{"./..."}, true)
	symx.Reach("listed")

	anyBuilt := false
	for i := range listing {
		l := &listing[i]
		want := c14Want(patterns, &l.pkg)
		if want && !l.folded {
			anyBuilt = true
		}
		got, ok := sharedCache.ListedPackages.get(l.pkg.ImportPath)
		if !ok {
			if err == nil {
				symx.Fail("package " + l.pkg.ImportPath + " is missing from the listed packages")
			}
			continue
		}
		if got.ToObfuscate != want {
			word := map[bool]string{true: "obfuscated", false: "left plain"}
			symx.Fail("GOGARBLE=" + label + ": package " + l.pkg.ImportPath + " is " + word[got.ToObfuscate] + ", the pattern list says it is to be " + word[want])
		}
		symx.Observe("decision", l.pkg.ImportPath, got.ToObfuscate)
	}
	// `GOGARBLE=runtime` style lists are let through on purpose (garble build runtime)
	if !anyBuilt && !module.MatchPrefixPatterns(patterns, "runtime") && err == nil {
		symx.Fail("GOGARBLE=" + label + " matches nothing that is being built, yet garble reports no error")
	}
	if anyBuilt && err != nil {
		symx.Fail("GOGARBLE=" + label + " matches a package of the build, yet garble fails: " + err.Error())
	}
	symx.Observe("error", err != nil)
}
