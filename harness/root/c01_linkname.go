package main

import (
	"go/ast"
	"go/token"

	"mvdan.cc/garble/internal/symx"
)

// C01/C14 (linkname directives): a //go:linkname directive is rewritten so that
// its local name is the name the declaration in this package gets and its target
// is pkgpath.name with the obfuscated import path and exactly the names the
// target package's declarations get (hashWithPackage with that package's salt;
// exported methods keep their names); targets in packages outside GOGARBLE,
// made-up symbol names and the toolchain's special symbols stay verbatim.

// linknameDirective runs the real transformDirectives on one comment.
func linknameDirective(tf *transformer, text string) (string, error) {
	c := &ast.Comment{Text: text}
	err := tf.transformDirectives([]*ast.CommentGroup{{List: []*ast.Comment{c}}})
	return c.Text, err
}

func methodName(lpkg *listedPackage, name string) string {
	if token.IsExported(name) {
		return name // exported methods may implement interfaces and are never renamed
	}
	return obfName(lpkg, name)
}

func H_C01_linkname() {
	// one class of hashed-name lengths (the lengths themselves are C16's subject)
	symx.DigestClass(neededSumBytes, maxHashLength-minHashLength+1, 0)
	curObf, depObf := symx.Choose(2) == 1, symx.Choose(2) == 1
	tf, cur, dep := asmWorld(curObf, depObf)
	rt, _ := sharedCache.ListedPackages.get("runtime")
	local := asciiIdent("local", 1+symx.Choose(tier(1, 2)))
	name := asciiIdent("name", 1+symx.Choose(tier(1, 2)))
	var in, want string
	switch symx.Choose(11) {
	case 0: // one argument: marks a local declaration as linknamed
		in = "//go:linkname " + local
		want = "//go:linkname " + obfName(cur, local)
	case 1: // a function or variable of a dependency whose path contains dots
		in = "//go:linkname " + local + " example.com/dep." + name
		want = "//go:linkname " + obfName(cur, local) + " " + linkTarget(dep, "example.com/dep", obfName(dep, name))
	case 2: // the runtime is never obfuscated
		in = "//go:linkname " + local + " runtime." + name
		want = "//go:linkname " + obfName(cur, local) + " " + linkTarget(rt, "runtime", obfName(rt, name))
	case 3: // a method with a value receiver
		recv := asciiIdent("recv", 1)
		in = "//go:linkname " + local + " example.com/dep." + recv + "." + name
		want = "//go:linkname " + obfName(cur, local) + " " + linkTarget(dep, "example.com/dep", obfName(dep, recv)+"."+methodName(dep, name))
	case 4: // a method with a pointer receiver
		recv := asciiIdent("recv", 1)
		in = "//go:linkname " + local + " example.com/dep.(*" + recv + ")." + name
		want = "//go:linkname " + obfName(cur, local) + " " + linkTarget(dep, "example.com/dep", "(*"+obfName(dep, recv)+")."+methodName(dep, name))
	case 5: // a made-up symbol name without a package (cgo)
		in = "//go:linkname " + local + " " + name
		want = "//go:linkname " + obfName(cur, local) + " " + name
	case 6: // a made-up name with a dot that matches no package
		in = "//go:linkname " + local + " libc_" + name + ".so"
		want = "//go:linkname " + obfName(cur, local) + " libc_" + name + ".so"
	case 7: // the toolchain's special symbols
		sp := []string{"main.main", "main..inittask", "runtime..inittask"}[symx.Choose(3)]
		in = "//go:linkname " + local + " " + sp
		want = "//go:linkname " + obfName(cur, local) + " " + sp
	case 8: // the current package referring to itself by path
		in = "//go:linkname " + local + " example.com/cur." + name
		want = "//go:linkname " + obfName(cur, local) + " " + linkTarget(cur, "example.com/cur", obfName(cur, name))
	case 9: // extra blanks between the fields
		in = "//go:linkname  " + local + "\texample.com/dep." + name
		want = "//go:linkname " + obfName(cur, local) + " " + linkTarget(dep, "example.com/dep", obfName(dep, name))
	case 10: // other directives and ordinary comments are left alone
		in = []string{"//go:noinline", "//go:linknamed " + local, "// go:linkname " + local + " runtime." + name, "//go:nosplit"}[symx.Choose(4)]
		want = in
	}
	got, err := linknameDirective(tf, in)
	symx.Reach("linkname")
	symx.Assert(err == nil, "ordinary linkname directives are accepted")
	symx.Assert(got == want, "a linkname directive names what both packages declare; everything else is verbatim")
}

// linkTarget is pkgpath.name as the linker will see it after obfuscation.
func linkTarget(lpkg *listedPackage, path, name string) string {
	if lpkg.ToObfuscate {
		return lpkg.obfuscatedImportPath() + "." + name
	}
	return path + "." + name
}

// H_C01_linkname_refused: linknames into the runtime's module data, which the
// patched runtime cannot honour, are refused instead of miscompiled.
func H_C01_linkname_refused() {
	tf, _, _ := asmWorld(true, true)
	local := asciiIdent("local", 1)
	target := []string{"runtime.lastmoduledatap", "runtime.moduledataverify1"}[symx.Choose(2)]
	_, err := linknameDirective(tf, "//go:linkname "+local+" "+target)
	symx.Reach("refused")
	symx.Assert(err != nil, "a linkname into the runtime's module data is refused")
}
