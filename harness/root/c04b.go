package main

import (
	"fmt"
	"go/ast"
	"go/token"
	"go/types"
	"strings"

	"mvdan.cc/garble/internal/symx"
)

// C04 (forward/backward agreement): what the build writes into a package —
// the names given by transformGoFile and the position directives written by
// printFile — is exactly what commandReverse prepares replacements for, and
// each replacement yields the original name or importpath/file.go:line.
//
// Same set-up as C13: concrete sources parsed and type-checked inside the
// engine, symbolic action ID and seed, hashWithCustomSalt summarised.

var c04Sources = []struct{ pkg, src string }{
	{"lib", `package lib

type Queue[T any] struct{ items []T }

func (q *Queue[T]) Push(v T) { q.items = append(q.items, v) }

func (q *Queue[T]) pop() (v T) {
	defer recoverAll()
	v = q.items[len(q.items)-1]
	q.items = q.items[:len(q.items)-1]
	return v
}

func recoverAll() { _ = recover() }

type worker struct{ Jobs Queue[int] }

func (w worker) Run(done chan bool) {
	go func() {
		w.Jobs.Push(1)
		done <- w.Jobs.pop() == first(w.Jobs.items, 1)
	}()
}

func first(xs []int,
	def int) int {
	if len(xs) == 0 {
		return def
	}
	return int(int64(xs[0])) / def
}
`},
	{"main", `package main

type logger struct{ prefix string }

func (l logger) printf(msg string) { println(l.prefix, msg) }

var std = logger{prefix: "x"}

func main() {
	std.printf("start")
	func() { helper(len(std.prefix)) }()
}

func helper(n int) {
	if n > 0 {
		panic("boom")
	}
}
`},
}

// c04Directives extracts the file names of the /*line name:1*/ comments that
// printFile wrote, in order.
func c04Directives(printed string) []string {
	var names []string
	rest := printed
	for {
		i := strings.Index(rest, "/*line ")
		if i < 0 {
			return names
		}
		rest = rest[i+len("/*line "):]
		j := strings.Index(rest, ":1*/")
		if j < 0 {
			return names
		}
		names = append(names, rest[:j])
		rest = rest[j:]
	}
}

func H_C04_forward_backward() {
	flagSeed = seedFlag{}
	if symx.Choose(2) == 1 {
		flagSeed = seedFlag{bytes: symx.Bytes("seed", 8)}
	}
	flagTiny = false
	symx.Stub("mvdan.cc/garble.hashWithCustomSalt", c13HashSummary)
	symx.DigestPrefixFree(5) // the bytes c13HashSummary uses
	srcs := c04Sources
	if symx.Thorough() {
		srcs = append(append([]struct{ pkg, src string }{}, srcs...), c13Sources...)
	}
	s := srcs[symx.Choose(len(srcs))]
	var lpkg *listedPackage
	id := symx.Bytes("actionID", 32) // natively go list computes the real ones
	// the other package's action ID: any ID that differs from this one (in its first byte)
	id2 := append([]byte{symx.Byte("actionID2")}, id[1:]...)
	symx.Assume(id2[0] != id[0])
	if symx.Symbolic() {
		lpkg = c13Engine(s.pkg, s.src, true, id, id2)
	} else {
		defer c13Native(s.pkg, s.src, true)()
		defer symx.FSCleanup()
		// any command fills sharedCache through the real go list
		if _, err := c13Map(); err != nil {
			symx.Fail("go list failed: " + err.Error())
			return
		}
		lpkg, _ = sharedCache.ListedPackages.get(c13Path)
		if lpkg == nil {
			symx.Fail("go list did not list " + c13Path)
			return
		}
	}

	// forward: the build's view of the file, obfuscated and printed
	tf, files, orig := c13BuildView(lpkg, symx.Choose(tier(1, 2)) == 1)
	if tf == nil {
		return
	}
	file := files[0] // a.go
	type callPos struct {
		offset, line int
	}
	var calls []callPos
	for node := range ast.Preorder(file) {
		if call, ok := node.(*ast.CallExpr); ok && call.Pos().IsValid() {
			p := fset.Position(call.Pos())
			if p.Offset < len(s.src) { // not the reflect helper code appended to main
				calls = append(calls, callPos{p.Offset, p.Line})
			}
		}
	}
	// forward specification: every identifier that begins a call expression is
	// preceded by a position directive naming hash(pkg, "file.go:offset of that call")
	startsCall := make(map[token.Pos]bool)
	for node := range ast.Preorder(file) {
		if call, ok := node.(*ast.CallExpr); ok {
			startsCall[call.Pos()] = true
		}
	}
	var expected []string
	for node := range ast.Preorder(file) {
		if id, ok := node.(*ast.Ident); ok && startsCall[id.Pos()] {
			if off := fset.Position(id.Pos()).Offset; off < len(s.src) {
				expected = append(expected, hashWithPackage(lpkg, fmt.Sprintf("a.go:%d", off))+".go")
			}
		}
	}
	out, err := printFile(lpkg, file)
	if err != nil {
		symx.Fail("printFile: " + err.Error())
		return
	}
	printed := string(append([]byte(nil), out...))
	symx.Reach("printed")

	// what reverse is asked about: every hashed position, every renamed declaration
	var ask, want []string
	dirs := c04Directives(printed)
	symx.Assert(len(dirs) >= len(expected), "every call that begins with an identifier gets a position directive")
	for i := 0; i < len(expected) && i < len(dirs); i++ {
		symx.Assert(dirs[i] == expected[i], fmt.Sprintf("position directive %d names the call that begins at the identifier it precedes", i))
	}
	matched := 0
	for _, d := range dirs {
		if d == "" {
			symx.Fail("a call position without a file name outside -tiny")
			continue
		}
		// which call does this directive stand for? (documented scheme: hash(pkg, "file.go:offset"))
		line := 0
		for _, c := range calls {
			if hashWithPackage(lpkg, fmt.Sprintf("a.go:%d", c.offset))+".go" == d {
				line = c.line
				break
			}
		}
		if line == 0 {
			continue // positions of the appended reflect helper code
		}
		matched++
		ask = append(ask, d+":1")
		want = append(want, fmt.Sprintf("%s/a.go:%d", c13Path, line))
	}
	symx.Assert(matched > 0, "printFile gives the calls of the package hashed positions derived from their offsets")
	if matched > 0 {
		symx.Reach("positions")
	}
	ids := make(identsByPos, 0, len(orig))
	for id := range orig {
		ids = append(ids, id)
	}
	sortIdents(ids)
	for _, id := range ids {
		obj := tf.info.Defs[id]
		if obj == nil || symx.Concretize(b2i(id.Name == orig[id])) == 1 {
			continue
		}
		if c13Injected(id, s.src) {
			continue // the reflect helper code appended to a main package
		}
		switch obj := obj.(type) {
		case *types.Func, *types.TypeName:
			if obj.Parent() != nil && obj.Parent() != tf.pkg.Scope() {
				continue // local type
			}
		case *types.Var:
			if !obj.IsField() {
				continue // variables and parameters do not show up in traces
			}
		default:
			continue
		}
		ask = append(ask, id.Name)
		want = append(want, orig[id])
	}
	if lpkg.Name != "main" {
		ask = append(ask, lpkg.obfuscatedImportPath())
		want = append(want, lpkg.ImportPath)
	}
	ask, want = c13AskOther(ask, want, orig)
	symx.Reach("asked")

	back, err := c13Reverse(ask, want)
	if err != nil {
		symx.Fail("garble reverse failed: " + err.Error())
		return
	}
	for i := range ask {
		symx.Assert(back[i], "garble reverse turns what the build wrote for "+want[i]+" back into it")
	}
	symx.Reach("reversed")
}
