package main

import (
	"go/ast"
	"go/parser"
	"strings"

	"mvdan.cc/garble/internal/symx"
)

const printSrcA = `// Package doc comment with a top-secret.
package p

//go:generate echo keep-me

//line orig-generated.y:10
//export exported-c-name

// helper does things (top-secret comment).
func helper(x int) int { /* inline top-secret */
	return other(x) + 1 // trailing top-secret
}

/*line orig-block.y:5*/ func other(x int) int { return x }
`

const printSrcB = `package p

func second() { helper(2) }
`

const printSrcC = `package p

type point struct{ x, y int }

func (p point) getX() int { return p.x }

var origin = point{}
`

const printSrcD = `package p

// width is top-secret.
func width(p struct{ w int }) int { return p.w }
`

func parseFile(name, src string) *ast.File {
	f, err := parser.ParseFile(fset, name, src, parser.SkipObjectResolution|parser.ParseComments)
	if err != nil {
		panic(err)
	}
	return f
}

// H_C02_printfile: the printed file of an obfuscated package carries no
// comment except directives, starts with an empty //line directive, hides the
// file name, and gives every call a hashed position; a plain package is
// printed with its comments and without position directives.
func H_C02_printfile() {
	flagSeed = seedFlag{bytes: symx.Bytes("seed", 8)}
	flagTiny = symx.Choose(2) == 1
	obf := symx.Choose(2) == 1
	lpkg := &listedPackage{Name: "p", ImportPath: "example.com/p", ToObfuscate: obf}
	fileA := parseFile("/src/secret-dir/alpha-file.go", printSrcA)
	outA, err := printFile(lpkg, fileA)
	symx.Reach("printed")
	symx.Assert(err == nil, "printFile succeeds")
	text := string(append([]byte(nil), outA...))
	if !obf {
		symx.Assert(strings.Contains(text, "top-secret comment") && !strings.Contains(text, "/*line :") && strings.Count(text, "/*line ") == 1, "plain packages keep comments and get no position directives")
		return
	}
	symx.Assert(!strings.Contains(text, "top-secret"), "no comment text survives")
	symx.Assert(!strings.Contains(text, "orig-generated") && !strings.Contains(text, "orig-block") && !strings.Contains(text, "exported-c-name"),
		"no line or export comment of the original survives (only //go: directives are kept)")
	symx.Assert(strings.Contains(text, "//go:generate echo keep-me"), "directives are kept")
	symx.Assert(strings.HasPrefix(text, "//line :1\n"), "the file defaults to an empty file name")
	symx.Assert(!strings.Contains(text, "alpha-file") && !strings.Contains(text, "secret-dir"), "the file name and directory do not appear")
	symx.Assert(strings.Count(text, "/*line ") == 1, "the one call expression gets a position directive")
	if flagTiny {
		symx.Assert(strings.Contains(text, "/*line :1*/"), "-tiny positions carry no file name")
	}
	_ = printSrcB
	// a file without any call expression and without comments: nothing to rewrite, but its
	// name must still be hidden behind the empty //line directive
	fileC := parseFile("/src/secret-dir/gamma-file.go", printSrcC)
	outC, err := printFile(lpkg, fileC)
	symx.Assert(err == nil, "printFile succeeds on a call-free file")
	textC := string(append([]byte(nil), outC...))
	symx.Assert(strings.HasPrefix(textC, "//line :1\n"), "a file without calls also defaults to an empty file name")
	symx.Assert(!strings.Contains(textC, "gamma-file") && !strings.Contains(textC, "secret-dir"), "the name of a call-free file does not appear")
	// and one without calls but with a doc comment
	fileD := parseFile("/src/secret-dir/delta-file.go", printSrcD)
	outD, err := printFile(lpkg, fileD)
	symx.Assert(err == nil, "printFile succeeds on a call-free file with comments")
	textD := string(append([]byte(nil), outD...))
	symx.Assert(strings.HasPrefix(textD, "//line :1\n") && !strings.Contains(textD, "top-secret"), "a call-free file loses its comments and gets the empty file name")
}
