package main

import (
	"encoding/json"
	"fmt"
	"go/ast"
	"go/token"
	"go/types"
	"io"
	"os"
	"os/exec"
	"runtime"
	"sort"
	"strings"

	"golang.org/x/tools/go/types/objectpath"

	"mvdan.cc/garble/internal/symx"
)

// C13: `garble map`, the build (transformGoFile with the compile-time type
// information) and `garble reverse` agree on every name of a package.
//
// The package sources are concrete (the Go parser and type checker run inside
// the engine); the package's action ID, the seed and the GOGARBLE membership
// are symbolic/enumerated. sha256 is an uninterpreted, collision-free function.

// Each source exercises the object kinds the property enumerates: types, funcs,
// vars, fields, unexported and exported methods, interface methods, generic
// types, embedded fields, aliases, names garble must keep (main, init, Test*).
var c13Sources = []struct{ pkg, src string }{
	{"lib", `package lib

type Point struct {
	X, y int
	Inner
}

type Inner struct{ Depth int }

type Alias = Inner

type Holder struct {
	Alias
	X int
}

type shape interface {
	area() int
	Name() string
}

var Origin = Point{}

var counter int

const Limit = 10

func New(x int) *Point { return &Point{X: x, y: counter} }

func (p *Point) Move(dx int) { p.X += dx }

func (p *Point) reset() { p.y = 0 }

func helper(s shape) int { return s.area() + Limit }
`},
	{"lib", `package lib

type Pair[K comparable, V any] struct {
	Key K
	Val V
}

func (p Pair[K, V]) swap() Pair[K, V] { return p }

func (p Pair[K, V]) Get() V { return p.Val }

type IntPair = Pair[int, int]

var Default IntPair

func MakePair[K comparable, V any](k K, v V) Pair[K, V] { return Pair[K, V]{Key: k, Val: v} }

type Visitor interface {
	visit(depth int) bool
	Done()
}

type Tree struct {
	Left, Right *Tree
	Visitor
	meta struct{ Tag string }
}
`},
	{"main", `package main

type config struct {
	Verbose bool
	level   int
}

var Global = config{}

func init() { Global.level = 1 }

func TestMain() {}

func main() { run(&Global) }

func run(c *config) { c.Verbose = c.level > 0 }
`},
}

// c13MoreSources are added in the thorough tier.
var c13MoreSources = []struct{ pkg, src string }{
	{"lib", `package lib

type Celsius struct{ Deg int }

type Reading struct{ Deg int }

var Last = Reading(Celsius{Deg: 1})

var Anon struct {
	Host string
	port int
}

type Options = struct {
	Name  string
	Retry int
}

var Defaults = Options{Name: "x"}

type Base struct{ ID int }

func (b *Base) Describe() string { return "" }

func (b *Base) touch() {}

type Derived struct {
	*Base
	Extra []Base
	cb    func(Base) Derived
}

type Stringer interface{ String() string }

type named interface {
	Stringer
	rename(to string)
}
`},
	{"lib", `package lib

type List[T any] struct {
	head *node[T]
	Len  int
}

type node[T any] struct {
	val  T
	next *node[T]
}

func (l *List[T]) Push(v T) { l.head = &node[T]{val: v, next: l.head}; l.Len++ }

func (l *List[T]) each(f func(T)) {
	for n := l.head; n != nil; n = n.next {
		f(n.val)
	}
}

type Number interface{ ~int | ~float64 }

func Sum[T Number](l *List[T]) (total T) {
	l.each(func(v T) { total += v })
	return total
}

type Ints = List[int]

var Shared Ints

type Wrapper[T any] struct {
	List[T]
	label string
}
`},
	{"main", `package main

type state int

const (
	idle state = iota
	busy
)

type machine struct {
	State state
	hooks map[state]func()
}

var Machine machine

var registry, Fallback = map[string]*machine{}, &Machine

func (m *machine) Step() {
	switch v := any(m.State).(type) {
	case state:
		m.State = v + busy
	}
}

func (m *machine) stop() { m.State = idle }

func main() {
	Machine.Step()
	Machine.stop()
	registry[""] = Fallback
}
`},
}

const c13Path = "example.com/m"

// c13Engine installs a go list result for one package whose only file is src.
// c13OtherSrc is a second package of the module; it repeats names that the
// packages under test declare, which must not confuse anyone: names are hashed
// per package.
const c13OtherSrc = `package other

func O() {}

func New() {}

func helper() {}

func run() {}

func first() {}

type Point struct{ X int }

type config struct{}

type Queue struct{}

type Tree struct{}

type List struct{}

type machine struct{}

type logger struct{}
`

// c13OtherNames are the package-level names of c13OtherSrc.
var c13OtherNames = []string{"O", "New", "helper", "run", "first", "Point", "config", "Queue", "Tree", "List", "machine", "logger"}

// c13AskOther adds the names the build gives the declarations of the other
// package to what garble reverse is asked about.
func c13AskOther(ask, want []string, orig map[*ast.Ident]string) ([]string, []string) {
	other, _ := sharedCache.ListedPackages.get(c13Path + "/other")
	if other == nil || !other.ToObfuscate {
		return ask, want
	}
	declared := make(map[string]bool)
	for _, n := range orig {
		declared[n] = true
	}
	for _, n := range c13OtherNames {
		if declared[n] || n == "O" { // the names both packages declare, and one only this one does
			ask = append(ask, hashWithPackage(other, n))
			want = append(want, n)
		}
	}
	return ask, want
}

// c13Tag is a build tag given to every command; c13Tagged is the file it enables.
const c13Tag = "-tags=c13tag"

func c13Tagged(pkgName string) string {
	return "//go:build c13tag\n\npackage " + pkgName + "\n\nvar Tagged struct{ On bool }\n"
}

func c13Engine(pkgName, src string, toObfuscate bool, id, id2 []byte) *listedPackage {
	dir := symx.FSRoot() + "/m"
	symx.FSMkdir(dir)
	symx.FSWriteFile(dir+"/a.go", src)
	symx.FSWriteFile(dir+"/t.go", c13Tagged(pkgName))
	lpkg := &listedPackage{
		Name:            pkgName,
		ImportPath:      c13Path,
		Dir:             dir,
		CompiledGoFiles: []string{"a.go", "t.go"}, // what go list -tags=c13tag reports
		ToObfuscate:     toObfuscate,
	}
	copy(lpkg.GarbleActionID[:], id)
	sharedCache = &sharedCacheType{ListedPackages: newListedPackages(), GOGARBLE: "*", BinaryContentID: []byte("0123456789abcdef")}
	sharedCache.GoEnv.GOOS = "linux"
	sharedCache.GoEnv.GOARCH = "amd64"
	sharedCache.ListedPackages.entries[lpkg.ImportPath] = lpkg
	// a second obfuscated package that declares some of the same names
	symx.FSMkdir(dir + "/other")
	symx.FSWriteFile(dir+"/other/o.go", c13OtherSrc)
	other := &listedPackage{
		Name:            "other",
		ImportPath:      c13Path + "/other",
		Dir:             dir + "/other",
		CompiledGoFiles: []string{"o.go"},
		ToObfuscate:     true,
	}
	copy(other.GarbleActionID[:], id2)
	sharedCache.ListedPackages.entries[other.ImportPath] = other
	// what every go list result contains, as far as the code under test looks
	sharedCache.ListedPackages.entries["unsafe"] = &listedPackage{Name: "unsafe", ImportPath: "unsafe", Standard: true}
	sharedCache.ListedPackages.entries["runtime"] = &listedPackage{Name: "runtime", ImportPath: "runtime", Standard: true, Imports: []string{"unsafe"}}
	return lpkg
}

// c13Native writes a real module and lets the real commands run `go list` on it.
func c13Native(pkgName, src string, toObfuscate bool) (restore func()) {
	dir := symx.FSRoot() + "/m"
	symx.FSMkdir(dir + "/other")
	symx.FSWriteFile(dir+"/go.mod", "module "+c13Path+"\n\ngo "+strings.TrimPrefix(runtime.Version(), "go")+"\n")
	symx.FSWriteFile(dir+"/a.go", src)
	symx.FSWriteFile(dir+"/t.go", c13Tagged(pkgName))
	symx.FSWriteFile(dir+"/other/o.go", c13OtherSrc)
	symx.FSMkdir(symx.FSRoot() + "/cache")
	wd, _ := os.Getwd()
	os.Chdir(dir)
	os.Setenv("GARBLE_CACHE", symx.FSRoot()+"/cache")
	os.Unsetenv("GARBLE_SHARED")
	if toObfuscate {
		os.Setenv("GOGARBLE", c13Path)
	} else {
		os.Setenv("GOGARBLE", c13Path+"/other")
	}
	stdout, stdin := os.Stdout, os.Stdin
	return func() {
		os.Chdir(wd)
		os.Stdout, os.Stdin = stdout, stdin
	}
}

// c13GoList stands in for toolexecCmd inside the engine: the listing is the one
// c13Engine installed for exactly these arguments, so they must arrive.
func c13GoList(command string, args []string) (*exec.Cmd, error) {
	symx.Assert(command == "list" && len(args) == 2 && args[0] == c13Tag && args[1] == "./...",
		"the command hands its build flags and package patterns to go list")
	return nil, nil
}

// c13Map runs the real commandMap. In the engine `go list` and the JSON encoder
// are cut off: the listing is the one installed by c13Engine and the value
// handed to the encoder is returned. Natively the command runs for real and its
// standard output is decoded.
func c13Map() (map[string]mapPackage, error) {
	var out map[string]mapPackage
	if symx.Symbolic() {
		symx.Stub("mvdan.cc/garble.toolexecCmd", c13GoList)
		symx.Stub("(*encoding/json.Encoder).Encode", func(e *json.Encoder, v any) error {
			out = v.(map[string]mapPackage)
			return nil
		})
		err := commandMap([]string{c13Tag, "./..."})
		symx.Unstub("mvdan.cc/garble.toolexecCmd")
		symx.Unstub("(*encoding/json.Encoder).Encode")
		return out, err
	}
	f, err := os.Create(symx.FSRoot() + "/map.json")
	if err != nil {
		return nil, err
	}
	os.Stdout = f
	err = commandMap([]string{c13Tag, "./..."})
	f.Close()
	if err != nil {
		return nil, err
	}
	data, _ := os.ReadFile(symx.FSRoot() + "/map.json")
	err = json.Unmarshal(data, &out)
	return out, err
}

// c13Reverse reports what `garble reverse` makes of each of the given names.
// In the engine the real commandReverse runs up to strings.NewReplacer and the
// answer is read off its argument list (first matching pair, as the Replacer
// does; the streaming replacement itself is C04's subject). Natively the real
// command reads the names from standard input, one per line.
func c13Reverse(names, want []string) ([]bool, error) {
	res := make([]bool, len(names))
	if symx.Symbolic() {
		var pairs []string
		symx.Stub("mvdan.cc/garble.toolexecCmd", c13GoList)
		symx.Stub("strings.NewReplacer", func(oldnew ...string) *strings.Replacer {
			pairs = oldnew
			return nil
		})
		symx.Stub("mvdan.cc/garble.reverseContent", func(w io.Writer, r io.Reader, repl *strings.Replacer) (bool, error) {
			return true, nil
		})
		err := commandReverse([]string{c13Tag, "./..."})
		symx.Unstub("mvdan.cc/garble.toolexecCmd")
		symx.Unstub("strings.NewReplacer")
		symx.Unstub("mvdan.cc/garble.reverseContent")
		if err != nil {
			return nil, err
		}
		for i, n := range names {
			// The first pair whose old string is n decides. Each comparison is a
			// solver query; with collision-free digests only one answer is feasible.
			for j := 0; j+1 < len(pairs); j += 2 {
				if pairs[j] == n {
					res[i] = pairs[j+1] == want[i]
					break
				}
			}
		}
		return res, nil
	}
	symx.FSWriteFile(symx.FSRoot()+"/in.txt", strings.Join(names, "\n")+"\n")
	in, err := os.Open(symx.FSRoot() + "/in.txt")
	if err != nil {
		return nil, err
	}
	defer in.Close()
	f, err := os.Create(symx.FSRoot() + "/out.txt")
	if err != nil {
		return nil, err
	}
	os.Stdin, os.Stdout = in, f
	err = commandReverse([]string{c13Tag, "./..."})
	f.Close()
	if _, ok := err.(errJustExit); ok {
		err = nil // exit status 1: nothing was modified
	}
	if err != nil {
		return nil, err
	}
	data, _ := os.ReadFile(symx.FSRoot() + "/out.txt")
	lines := strings.Split(strings.TrimSuffix(string(data), "\n"), "\n")
	if len(lines) != len(names) {
		return nil, fmt.Errorf("garble reverse printed %d lines for %d", len(lines), len(names))
	}
	for i := range lines {
		res[i] = lines[i] == want[i]
	}
	return res, nil
}

// c13BuildView prepares the type information the way transformCompile does
// (absolute paths, main-package patch, optional SSA info) and obfuscates the file.
func c13BuildView(lpkg *listedPackage, withSSAInfo bool) (*transformer, []*ast.File, map[*ast.Ident]string) {
	reflectPatchFile = ""
	// The compile step runs in a toolexec sub-process, which receives the seed
	// as the text of the -seed flag: it must be the same seed. (Decided once
	// here; the names below are then computed from the parent's bytes, which
	// keeps the hash inputs of the three views syntactically equal.)
	if flagSeed.present() {
		var child seedFlag
		err := child.Set(flagSeed.String())
		symx.Assert(err == nil && bytesEq(child.bytes, flagSeed.bytes), "the toolexec sub-process parses the -seed it is given into the same seed")
	}
	tf := &transformer{curPkg: lpkg, origImporter: importerForPkg(lpkg)}
	var paths []string
	for _, name := range lpkg.CompiledGoFiles {
		if !strings.HasPrefix(name, "/") {
			name = lpkg.Dir + "/" + name
		}
		paths = append(paths, name)
	}
	files, err := parseFiles(lpkg, "", paths, true)
	if err != nil {
		symx.Fail("build view: parse: " + err.Error())
		return nil, nil, nil
	}
	tf.pkg, tf.info, err = typecheck(lpkg.ImportPath, files, tf.origImporter, withSSAInfo)
	if err != nil {
		symx.Fail("build view: typecheck: " + err.Error())
		return nil, nil, nil
	}
	tf.fieldToStruct = computeFieldToStruct(tf.info)
	orig := make(map[*ast.Ident]string)
	for id := range tf.info.Defs {
		orig[id] = id.Name
	}
	for i, file := range files {
		files[i] = tf.transformGoFile(file)
	}
	return tf, files, orig
}

// c13Injected reports whether id belongs to the reflect helper code that the
// build appends to the first file of a main package.
func c13Injected(id *ast.Ident, src string) bool {
	p := fset.Position(id.Pos())
	return strings.HasSuffix(p.Filename, "/a.go") && p.Offset >= len(src)
}

// c13HashSummary stands in for hashWithCustomSalt inside the engine: a
// well-formed identifier of fixed length that is an injective function of the
// first five digest bytes of (salt, seed, name) and keeps the exportedness of
// name. That hashWithCustomSalt is such a function is what C12 and C16 decide
// on the real code; natively the real function runs.
func c13HashSummary(salt []byte, name string) string {
	if len(salt) == 0 || name == "" {
		panic("hashWithCustomSalt: empty salt or name")
	}
	buf := append(append(append([]byte{}, salt...), flagSeed.bytes...), name...)
	d := symx.Digest(buf)
	out := make([]byte, 10)
	for i := 0; i < 5; i++ {
		out[2*i] = 'a' + d[i]>>4
		out[2*i+1] = 'a' + d[i]&15
	}
	if token.IsIdentifier(name) && token.IsExported(name) {
		out[0] -= 'a' - 'A'
	}
	return string(out)
}

type identsByPos []*ast.Ident

func (s identsByPos) Len() int           { return len(s) }
func (s identsByPos) Less(i, j int) bool { return s[i].Pos() < s[j].Pos() }
func (s identsByPos) Swap(i, j int)      { s[i], s[j] = s[j], s[i] }

func sortIdents(ids identsByPos) { sort.Sort(ids) }

func H_C13_map_build_reverse() {
	flagSeed = seedFlag{}
	switch symx.Choose(tier(2, 3)) {
	case 1:
		flagSeed = seedFlag{bytes: symx.Bytes("seed", 8)}
	case 2:
		flagSeed = seedFlag{bytes: symx.Bytes("seed", 12)}
	}
	symx.Stub("mvdan.cc/garble.hashWithCustomSalt", c13HashSummary)
	symx.DigestPrefixFree(5) // the bytes c13HashSummary uses
	srcs := c13Sources
	if symx.Thorough() {
		srcs = append(append([]struct{ pkg, src string }{}, srcs...), c13MoreSources...)
	}
	s := srcs[symx.Choose(len(srcs))]
	toObf := symx.Choose(tier(1, 2)) == 0
	var lpkg *listedPackage
	id := symx.Bytes("actionID", 32) // natively go list computes the real ones
	// the other package's action ID: any ID that differs from this one (in its first byte)
	id2 := append([]byte{symx.Byte("actionID2")}, id[1:]...)
	symx.Assume(id2[0] != id[0])
	if symx.Symbolic() {
		lpkg = c13Engine(s.pkg, s.src, toObf, id, id2)
	} else {
		defer c13Native(s.pkg, s.src, toObf)()
		defer symx.FSCleanup()
	}

	listed, err := c13Map()
	if err != nil {
		symx.Fail("garble map failed: " + err.Error())
		return
	}
	if !symx.Symbolic() {
		lpkg, _ = sharedCache.ListedPackages.get(c13Path)
		if lpkg == nil {
			symx.Fail("go list did not list " + c13Path)
			return
		}
	}
	symx.Reach("mapped")
	mp, ok := listed[lpkg.ImportPath]
	if !toObf {
		symx.Assert(!ok, "a package outside GOGARBLE is not listed by garble map")
		return
	}
	symx.Assert(ok, "an obfuscated package is listed by garble map")
	if !ok {
		return
	}
	symx.Assert(mp.Path == lpkg.obfuscatedImportPath(), "garble map prints the import path the build uses")

	tf, _, orig := c13BuildView(lpkg, symx.Choose(2) == 1)
	if tf == nil {
		return
	}
	symx.Reach("built")

	// Defining identifier of every object, in the build's view.
	defOf := make(map[types.Object]*ast.Ident)
	for id, obj := range tf.info.Defs {
		if obj != nil {
			defOf[obj] = id
		}
	}

	// (a) every listed name is the name the build gave that object
	paths := make([]string, 0, len(mp.Objects))
	for p := range mp.Objects {
		paths = append(paths, p)
	}
	sort.Strings(paths)
	var listedNames, listedOrig []string
	for _, p := range paths {
		obj, err := objectpath.Object(tf.pkg, objectpath.Path(p))
		if err != nil {
			symx.Fail("garble map lists " + p + ", which is not an object of the package: " + err.Error())
			continue
		}
		id := defOf[obj]
		if id == nil {
			continue // no declaration syntax of its own
		}
		symx.Assert(id.Name == mp.Objects[p], "garble map and the build agree on the name of "+p+" ("+orig[id]+")")
		listedNames = append(listedNames, mp.Objects[p])
		listedOrig = append(listedOrig, orig[id])
	}
	symx.Reach("compared")

	// (b) every object the build renamed and that has an object path is listed
	ids := make(identsByPos, 0, len(orig))
	for id := range orig {
		ids = append(ids, id)
	}
	sort.Sort(ids)
	var enc objectpath.Encoder
	renamed := 0
	for _, id := range ids {
		obj := tf.info.Defs[id]
		if obj == nil || symx.Concretize(b2i(id.Name == orig[id])) == 1 {
			continue
		}
		if parent := obj.Parent(); parent != nil && parent != tf.pkg.Scope() {
			continue // local
		}
		if c13Injected(id, s.src) {
			continue // the reflect helper code appended to a main package
		}
		p, err := enc.For(obj)
		if err != nil {
			continue // not reachable through the API
		}
		renamed++
		got, ok := mp.Objects[string(p)]
		symx.Assert(ok, "garble map lists the renamed API object "+string(p)+" ("+orig[id]+")")
		if ok {
			symx.Assert(got == id.Name, "garble map and the build agree on the name of "+string(p)+" ("+orig[id]+")")
		}
	}
	if renamed > 0 {
		symx.Reach("renamed")
	}

	// (c) garble reverse maps each listed name back to its original
	listedNames, listedOrig = c13AskOther(listedNames, listedOrig, orig)
	back, err := c13Reverse(listedNames, listedOrig)
	if err != nil {
		symx.Fail("garble reverse failed: " + err.Error())
		return
	}
	for i := range listedNames {
		symx.Assert(back[i], "garble reverse maps the listed name of "+listedOrig[i]+" back to it")
	}
	symx.Reach("reversed")
}
func b2i(b bool) int {
	if b {
		return 1
	}
	return 0
}
