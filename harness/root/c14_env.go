package main

import (
	"encoding/json"
	"os/exec"

	"golang.org/x/mod/module"

	"mvdan.cc/garble/internal/symx"
)

// H_C14_gogarble_env: the pattern list every later decision is taken with
// (sharedCache.GOGARBLE, set by the real fetchGoEnv) selects exactly the
// packages the user's GOGARBLE selects -- and every package when GOGARBLE is
// unset or empty. `go env` itself, JSON decoding and symlink resolution are
// stubbed by their results; natively the real go command answers.
func H_C14_gogarble_env() {
	defer symx.FSCleanup()
	symx.Stub("(*os/exec.Cmd).Output", func(c *exec.Cmd) ([]byte, error) { return []byte("{}"), nil })
	symx.Stub("encoding/json.Unmarshal", func(data []byte, v any) error {
		sharedCache.GoEnv.GOVERSION = "go1.26.2"
		sharedCache.GoEnv.GOROOT = "/goroot"
		sharedCache.GoEnv.GOOS, sharedCache.GoEnv.GOARCH = "linux", "amd64"
		return nil
	})
	symx.Stub("path/filepath.EvalSymlinks", func(p string) (string, error) { return p, nil })

	// one to three patterns over an alphabet that has path separators, a
	// wildcard and letters that make one pattern a prefix of another
	alphabet := "aa/*" // quick: one letter
	if symx.Thorough() {
		alphabet = "ab/*"
	}
	var env string
	nPat := symx.Choose(tier(3, 4)) // 0: unset
	for i := 0; i < nPat; i++ {
		if i > 0 {
			env += ","
		}
		n := symx.Choose(tier(3, 4)) // pattern length 0..2 (3)
		pat := symx.String("pat"+string(rune('0'+i)), n)
		for j := 0; j < n; j++ {
			symx.Assume(pat[j] == alphabet[0] || pat[j] == alphabet[1] || pat[j] == alphabet[2] || pat[j] == alphabet[3])
		}
		env += pat
	}
	symx.Setenv("GOGARBLE", env)
	sharedCache = &sharedCacheType{}
	err := fetchGoEnv()
	symx.Reach("env")
	symx.Assert(err == nil, "fetchGoEnv succeeds")
	if err != nil {
		return
	}
	pn := 1 + symx.Choose(tier(3, 4))
	pkg := symx.String("pkg", pn)
	for j := 0; j < pn; j++ {
		symx.Assume(pkg[j] == alphabet[0] || pkg[j] == alphabet[1] || pkg[j] == '/')
	}
	symx.Assume(pkg[0] != '/' && pkg[pn-1] != '/')
	want := env == "" || module.MatchPrefixPatterns(env, pkg)
	got := module.MatchPrefixPatterns(sharedCache.GOGARBLE, pkg)
	symx.Assert(got == want, "the stored GOGARBLE selects exactly the packages the user's GOGARBLE selects")
	symx.Observe("selected", got)
}

var _ = json.Unmarshal
