package main

import (
	"strings"

	"mvdan.cc/garble/internal/symx"
)

// C01/C02/C14 (importcfg): the import configuration handed to the compiler
// and linker names every obfuscated package by its obfuscated import path —
// the same path the package's own compilation uses — keeps the object files,
// keeps packages outside GOGARBLE verbatim, and never mentions the original
// path of an obfuscated package.

func H_C02_importcfg() {
	symx.DigestClass(neededSumBytes, maxHashLength-minHashLength+1, 0)
	curObf, depObf := symx.Choose(2) == 1, symx.Choose(2) == 1
	tf, cur, dep := asmWorld(curObf, depObf)
	rt, _ := sharedCache.ListedPackages.get("runtime")
	cur.ImportMap = map[string]string{"v/dep": "example.com/dep"}
	cur.Imports = []string{"example.com/dep"}

	root := symx.FSRoot()
	defer symx.FSCleanup()
	sharedTempDir = root
	// object file names are arbitrary apart from the characters that end them
	obj := func(name string) string {
		s := symx.String(name, 1+symx.Choose(tier(1, 2)))
		for i := 0; i < len(s); i++ {
			symx.Assume(s[i] != '\n' && s[i] >= ' ' && s[i] < 0x7f)
		}
		return "/cache/" + s + ".a"
	}
	depFile, rtFile := obj("depfile"), obj("rtfile")
	var in string
	var want []string
	shape := symx.Choose(4)
	switch shape {
	case 0: // the usual layout
		in = "# import config\npackagefile example.com/dep=" + depFile + "\npackagefile runtime=" + rtFile + "\n"
		want = []string{"packagefile " + obfPath(dep, "example.com/dep") + "=" + depFile, "packagefile " + obfPath(rt, "runtime") + "=" + rtFile}
	case 1: // a vendored alias: importmap lines come first in the output
		in = "packagefile example.com/dep=" + depFile + "\nimportmap v/dep=example.com/dep\n"
		alias := "v/dep"
		if dep.ToObfuscate {
			alias = hashWithPackage(dep, "v/dep")
		}
		want = []string{"importmap " + alias + "=" + obfPath(dep, "example.com/dep"), "packagefile " + obfPath(dep, "example.com/dep") + "=" + depFile}
	case 2: // lines that are not understood are dropped, blank lines and comments skipped
		in = "\n#x\nmodinfo \"abc\"\npackagefile runtime=" + rtFile
		want = []string{"packagefile " + obfPath(rt, "runtime") + "=" + rtFile}
	case 3: // the package's own path (test variants list it)
		in = "packagefile example.com/cur=" + depFile + "\n"
		want = []string{"packagefile " + obfPath(cur, "example.com/cur") + "=" + depFile}
	}
	symx.FSWriteFile(root+"/importcfg.in", in)
	flags := []string{"-p", "x", "-importcfg", root + "/importcfg.in"}
	if symx.Choose(2) == 1 {
		flags = []string{"-importcfg=" + root + "/importcfg.in", "-p", "x"}
	}
	out, err := tf.processImportCfg(flags, nil)
	symx.Reach("importcfg")
	symx.Assert(err == nil, "a well-formed importcfg is accepted")
	if err != nil {
		return
	}
	symx.Assert(out != root+"/importcfg.in" && strings.HasPrefix(out, root+"/"), "the new importcfg is a new file in garble's own temporary directory")
	got, ok := symx.FSReadFile(out)
	symx.Assert(ok, "the new importcfg exists")
	symx.Assert(got == strings.Join(want, "\n")+"\n", "every package is named by the import path its own compilation uses, object files are kept")
	orig, _ := symx.FSReadFile(root + "/importcfg.in")
	symx.Assert(orig == in, "the toolchain's importcfg is left untouched")
}
