package main

import (
	"go/ast"
	"go/parser"
	"go/types"
	"strings"

	"golang.org/x/tools/go/ssa"

	"mvdan.cc/garble/internal/symx"
)

// C08, the detection itself: the SSA dataflow of reflect.go must find every
// type that reaches reflect.TypeOf/ValueOf, whatever order Go iterates the
// package's members in.

// c08ReflectSrc stands in for package reflect: recordReflection identifies
// the reflecting APIs by their full names, nothing else of the package matters.
const c08ReflectSrc = `package reflect

type Type interface {
	Name() string
	NumField() int
}

type Value struct{ p *int }

func TypeOf(i any) Type { return nil }

func ValueOf(i any) Value { return Value{} }
`

// c08Flows are the ways a value of type Target reaches reflection. Each is a
// complete package; Target and its field Val must end up in the name table.
var c08Flows = []struct{ name, src, lib string }{
	{"direct", `
func Use() { _ = reflect.TypeOf(Target{}) }
`, ""},
	{"one helper", `
func h1(x any) reflect.Type { return reflect.TypeOf(x) }

func Use() { h1(Target{}) }
`, ""},
	{"two helpers", `
func h1(x any) reflect.Type { return reflect.TypeOf(x) }

func h2(x any) reflect.Type { return h1(x) }

func Use() { h2(Target{}) }
`, ""},
	{"three helpers", `
func h1(x any) reflect.Type { return reflect.TypeOf(x) }

func h2(x any) reflect.Type { return h1(x) }

func h3(x any) reflect.Type { return h2(x) }

func Use() { h3(Target{}) }
`, ""},
	{"pointer", `
func h1(x any) reflect.Value { return reflect.ValueOf(x) }

func Use() { h1(&Target{Val: 1}) }
`, ""},
	{"slice", `
func h1(x any) reflect.Type { return reflect.TypeOf(x) }

func Use() { h1([]Target{{Val: 1}}) }
`, ""},
	{"variadic", `
func hv(xs ...any) {
	for _, x := range xs {
		_ = reflect.TypeOf(x)
	}
}

func Use() { hv(1, Target{}) }
`, ""},
	{"interface variable", `
func h1(x any) reflect.Type { return reflect.TypeOf(x) }

func Use(n int) {
	var i any = n
	if n > 0 {
		i = Target{Val: n}
	}
	h1(i)
}
`, ""},
	{"method helper", `
type pr struct{}

func (pr) show(x any) { _ = reflect.TypeOf(x) }

func Use() { pr{}.show(Target{}) }
`, ""},
	{"nested in a reflected struct", `
type Wrap struct{ In *Target }

func h1(x any) reflect.Type { return reflect.TypeOf(x) }

func Use() { h1(Wrap{}) }
`, ""},
	{"after a store to a reflected global", `
type First struct{ N int }

var current First

func show() { _ = reflect.TypeOf(current) }

func h1(x any) reflect.Type { return reflect.TypeOf(x) }

func h2(x any) reflect.Type { return h1(x) }

func Use() {
	current = First{N: 1}
	h2(Target{})
}
`, ""},
	{"stored into an interface field of a reflected struct", `
type Backend interface{ Name() string }

func (Target) Name() string { return "t" }

type Config struct{ Primary Backend }

func Use() {
	cfg := &Config{}
	cfg.Primary = Target{Val: 1}
	_ = reflect.TypeOf(cfg)
}
`, ""},
	{"stored into a reflected struct by another function", `
type Backend interface{ Name() string }

func (Target) Name() string { return "t" }

type Config struct{ Primary Backend }

var configType = reflect.TypeOf(Config{})

func setup(c *Config) { c.Primary = Target{Val: 1} }

func Use() {
	c := new(Config)
	setup(c)
	_ = configType
}
`, ""},
	{"converted from a reflected type", `
type wire struct{ Val int }

func convert(m wire) Target { return Target(m) }

func Use() {
	m := wire{Val: 1}
	_ = convert(m)
	_ = reflect.TypeOf(m)
}
`, ""},
	{"helper declared in a dependency", `
func Use() { lib.Show(Target{Val: 1}) }
`, `
func Show(x any) reflect.Type { return reflect.TypeOf(x) }
`},
	{"two-level helper declared in a dependency", `
func local(x any) { lib.Show2(x) }

func Use() { local(Target{Val: 1}) }
`, `
func show(x any) reflect.Type { return reflect.TypeOf(x) }

func Show2(x any) reflect.Type { return show(x) }
`},
	{"method helper declared in a dependency", `
func Use() {
	var p lib.Printer
	p.Print(0, Target{Val: 1})
}
`, `
type Printer struct{}

func (Printer) Print(n int, x any) { _ = reflect.ValueOf(x) }
`},
	{"helper with two reflected parameters", `
func h1(x any) reflect.Type { return reflect.TypeOf(x) }

func both(a, b any) {
	h1(a)
	h1(b)
}

func Use() { both(1, Target{}) }
`, ""},
}

const c08DataflowPath = "example.com/cur"

func c08Importer(pkgs ...*types.Package) importerWithMap {
	return importerWithMap{importFrom: func(path, dir string, mode types.ImportMode) (*types.Package, error) {
		for _, p := range pkgs {
			if p != nil && p.Path() == path {
				return p, nil
			}
		}
		return nil, errNoSuchPackage
	}}
}

const c08LibPath = "example.com/lib"

// c08Analyse is computePkgCache's analysis step: SSA of the package, then the
// real recordReflection on top of what the dependencies' cache entries hold.
func c08Analyse(lpkg *listedPackage, pkg *types.Package, file *ast.File, info *types.Info, inherited *pkgCache) pkgCache {
	ssaPkg := ssaBuildPkg(pkg, []*ast.File{file}, info)
	computed := pkgCache{
		ReflectAPIs: map[string]map[int]bool{
			"reflect.TypeOf":  {0: true},
			"reflect.ValueOf": {0: true},
		},
		ReflectObjectNames: map[string]string{},
	}
	if inherited != nil {
		computed.CopyFrom(*inherited)
	}
	inspector := reflectInspector{
		lpkg:            lpkg,
		pkg:             pkg,
		checkedAPIs:     make(map[string]bool),
		propagatedInstr: map[ssa.Instruction]bool{},
		result:          computed,
	}
	symx.MapOrder(true)
	// the package's members (a handful) in every explored order; the small API tables in insertion order
	symx.MapOrderOpts(5, 0, true)
	inspector.recordReflection(ssaPkg)
	symx.MapOrder(false)
	return inspector.result
}

var errNoSuchPackage = errString("no such package")

type errString string

func (e errString) Error() string { return string(e) }

func c08Flow(idx int) {
	flow := c08Flows[idx]
	flagSeed = seedFlag{bytes: []byte("12345678")}
	flagDebug = false
	sharedCache = &sharedCacheType{ListedPackages: newListedPackages()}
	sharedCache.GoEnv.GOOS = "linux"
	sharedCache.GoEnv.GOARCH = "amd64"
	cur := &listedPackage{Name: "cur", ImportPath: c08DataflowPath, ToObfuscate: true, Imports: []string{"reflect"}}
	copy(cur.GarbleActionID[:], "0123456789abcdef0123456789abcdef")
	sharedCache.ListedPackages.set(cur.ImportPath, cur)
	sharedCache.ListedPackages.set("reflect", &listedPackage{Name: "reflect", ImportPath: "reflect", Standard: true})

	parse := func(name, src string) *ast.File {
		f, err := parser.ParseFile(fset, name, src, parser.SkipObjectResolution|parser.ParseComments)
		if err != nil {
			symx.Fail("parse " + name + ": " + err.Error())
			return nil
		}
		return f
	}
	rf := parse("reflect.go", c08ReflectSrc)
	if rf == nil {
		return
	}
	reflectPkg, _, err := typecheck("reflect", []*ast.File{rf}, c08Importer(nil), false)
	if err != nil {
		symx.Fail(err.Error())
		return
	}
	var libPkg *types.Package
	var inherited *pkgCache
	if flow.lib != "" {
		lib := &listedPackage{Name: "lib", ImportPath: c08LibPath, ToObfuscate: true, Imports: []string{"reflect"}}
		copy(lib.GarbleActionID[:], "fedcba9876543210fedcba9876543210")
		sharedCache.ListedPackages.set(lib.ImportPath, lib)
		cur.Imports = append(cur.Imports, c08LibPath)
		lfile := parse("lib.go", "package lib\n\nimport \"reflect\"\n"+flow.lib)
		if lfile == nil {
			return
		}
		lp, linfo, err := typecheck(c08LibPath, []*ast.File{lfile}, c08Importer(reflectPkg), true)
		if err != nil {
			symx.Fail(err.Error())
			return
		}
		libPkg = lp
		c := c08Analyse(lib, lp, lfile, linfo, nil)
		inherited = &c
	}
	src := "package cur\n\n"
	if strings.Contains(flow.src, "reflect.") {
		src += "import \"reflect\"\n"
	}
	if flow.lib != "" {
		src += "import \"" + c08LibPath + "\"\n"
	}
	src += "\ntype Target struct{ Val int }\n" + flow.src
	file := parse("a.go", src)
	if file == nil {
		return
	}
	pkg, info, err := typecheck(cur.ImportPath, []*ast.File{file}, c08Importer(reflectPkg, libPkg), true)
	if err != nil {
		symx.Fail(err.Error())
		return
	}
	symx.Reach("built")
	result := c08Analyse(cur, pkg, file, info, inherited)
	symx.Reach("analysed")

	target := pkg.Scope().Lookup("Target").(*types.TypeName)
	st := target.Type().Underlying().(*types.Struct)
	names := result.ReflectObjectNames
	hT := hashWithPackage(cur, "Target")
	hF := hashWithStruct(st, st.Field(0))
	if names[hT] != "Target" {
		symx.Fail("flow \"" + flow.name + "\": the reflected type Target is not recorded, its name stays obfuscated at run time")
	}
	if names[hF] != "Val" {
		symx.Fail("flow \"" + flow.name + "\": the field Val of the reflected type is not recorded")
	}
}

// H_C08_dataflow: every flow x every explored iteration order of the package's members.
func H_C08_dataflow() {
	idx := symx.Choose(len(c08Flows))
	if !symx.Symbolic() {
		// natively the iteration order cannot be chosen: repeat
		for i := 0; i < 40 && len(symx.Failures) == 0; i++ {
			c08Flow(idx)
		}
		return
	}
	c08Flow(idx)
}
