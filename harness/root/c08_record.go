package main

import (
	"go/token"
	"go/types"

	"mvdan.cc/garble/internal/symx"
)

// H_C08_record_reachable: recursivelyRecordUsedForReflect on a type that
// reached reflection records the obfuscated name of every named type and of
// every struct field reachable from it, whichever package declares them and
// whether or not the packages on the way are obfuscated. The types are built
// with the go/types constructors: Outer (declared in the current package or
// in a dependency that may be outside GOGARBLE) holds, through eight kinds
// of type constructor, Inner (declared in another, obfuscated package).
func H_C08_record_reachable() {
	flagSeed = seedFlag{bytes: []byte("12345678")}
	flagDebug = false
	// one class of hashed-name lengths (the length is chosen by a digest byte)
	symx.DigestClass(neededSumBytes, maxHashLength-minHashLength+1, 0)
	sharedCache = &sharedCacheType{ListedPackages: newListedPackages()}
	outerObf := symx.Choose(2) == 1
	outerForeign := symx.Choose(2) == 1
	cur := &listedPackage{Name: "cur", ImportPath: "example.com/cur", ToObfuscate: true}
	api := &listedPackage{Name: "api", ImportPath: "example.com/api", ToObfuscate: outerObf}
	in := &listedPackage{Name: "inner", ImportPath: "example.com/inner", ToObfuscate: true}
	for _, l := range []*listedPackage{cur, api, in} {
		sharedCache.ListedPackages.set(l.ImportPath, l)
	}
	curPkg := types.NewPackage(cur.ImportPath, cur.Name)
	apiPkg := types.NewPackage(api.ImportPath, api.Name)
	inPkg := types.NewPackage(in.ImportPath, in.Name)
	outerPkg, outerL := curPkg, cur
	if outerForeign {
		outerPkg, outerL = apiPkg, api
	}

	innerName := "I" + lowerLetter("inner")
	innerField := "F" + lowerLetter("ifield")
	outerName := "O" + lowerLetter("outer")
	outerField := "G" + lowerLetter("ofield")

	innerStruct := types.NewStruct([]*types.Var{
		types.NewField(token.NoPos, inPkg, innerField, types.Typ[types.Int], false),
	}, nil)
	inner := types.NewNamed(types.NewTypeName(token.NoPos, inPkg, innerName, nil), innerStruct, nil)

	var via types.Type
	var anon *types.Struct
	switch symx.Choose(8) {
	case 0:
		via = inner
	case 1:
		via = types.NewPointer(inner)
	case 2:
		via = types.NewSlice(inner)
	case 3:
		via = types.NewArray(inner, 2)
	case 4:
		via = types.NewMap(types.Typ[types.String], inner)
	case 5:
		via = types.NewChan(types.SendRecv, types.NewPointer(inner))
	case 6:
		via = types.NewAlias(types.NewTypeName(token.NoPos, outerPkg, "A", nil), types.NewSlice(inner))
	default:
		anon = types.NewStruct([]*types.Var{types.NewField(token.NoPos, outerPkg, "X", types.NewPointer(inner), false)}, nil)
		via = anon
	}
	outerStruct := types.NewStruct([]*types.Var{
		types.NewField(token.NoPos, outerPkg, outerField, via, false),
		types.NewField(token.NoPos, outerPkg, "n", types.Typ[types.Int], false),
	}, nil)
	outer := types.NewNamed(types.NewTypeName(token.NoPos, outerPkg, outerName, nil), outerStruct, nil)

	// the hashed names involved; a collision among them is excluded (C16: a clash needs a
	// genuine collision of the truncated digest, which the analysis could not survive either)
	hInner := hashWithPackage(in, innerName)
	hOuter := hashWithPackage(outerL, outerName)
	hIF := hashWithStruct(innerStruct, innerStruct.Field(0))
	hOF := hashWithStruct(outerStruct, outerStruct.Field(0))
	hON := hashWithStruct(outerStruct, outerStruct.Field(1))
	all := []string{hInner, hOuter, hIF, hOF, hON}
	if anon != nil {
		all = append(all, hashWithStruct(anon, anon.Field(0)))
	}
	for i := range all {
		for j := i + 1; j < len(all); j++ {
			symx.Assume(all[i] != all[j])
		}
	}

	ri := &reflectInspector{lpkg: cur, pkg: curPkg, checkedAPIs: map[string]bool{}, result: pkgCache{
		ReflectAPIs: map[string]map[int]bool{}, ReflectObjectNames: map[string]string{},
	}}
	start := types.Type(outer)
	if symx.Choose(2) == 1 {
		start = types.NewPointer(outer) // reflect.TypeOf(&v)
	}
	ri.recursivelyRecordUsedForReflect(start)
	symx.Reach("recorded")
	names := ri.result.ReflectObjectNames
	has := func(obf, orig, what string) {
		got, ok := names[obf]
		symx.Assert(ok && got == orig, what)
	}
	// Inner and its field are declared in an obfuscated package: their hashed names must map back
	has(hInner, innerName, "the named type nested under the reflected type is recorded")
	has(hIF, innerField, "the fields of the nested named type are recorded")
	// fields are hashed by struct shape wherever they are declared
	has(hOF, outerField, "the fields of the reflected type are recorded")
	if anon != nil {
		has(hashWithStruct(anon, anon.Field(0)), "X", "the fields of an anonymous struct on the way are recorded")
	}
	if outerL.ToObfuscate {
		has(hOuter, outerName, "the reflected named type itself is recorded")
	}
}

// lowerLetter is one symbolic lower-case letter.
func lowerLetter(name string) string {
	s := symx.String(name, 1)
	symx.Assume(s[0] >= 'a' && s[0] <= 'z')
	return s
}
