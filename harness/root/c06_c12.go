package main

import (
	"go/token"
	"go/types"

	"mvdan.cc/garble/internal/literals"
	"mvdan.cc/garble/internal/symx"
)

// C06 / C12: what flows into garble's hashes. Under the engine sha256 is an
// uninterpreted, collision-free function on symbolic input, so "the digests
// differ" is decided as "the hashed byte vectors differ"; natively the same
// assertions run on real digests.

// garbleConfig is every garble input that changes obfuscation output.
type garbleConfig struct {
	binID    []byte
	gogarble string
	literals bool
	tiny     bool
	seed     []byte // nil: unseeded
	ctrlflow bool
	testObf  string
}

func (c garbleConfig) apply() {
	sharedCache = &sharedCacheType{ListedPackages: newListedPackages()}
	sharedCache.BinaryContentID = c.binID
	sharedCache.GOGARBLE = c.gogarble
	flagLiterals, flagTiny, flagControlFlow = c.literals, c.tiny, c.ctrlflow
	flagSeed = seedFlag{bytes: c.seed}
	flagDebug, flagDebugDir = false, ""
	literals.TestObfuscator = c.testObf
}

// gogarbleString is a GOGARBLE value: printable ASCII without quote and backslash.
func gogarbleString(name string, n int) string {
	s := symx.String(name, n)
	for i := 0; i < len(s); i++ {
		symx.Assume(s[i] >= 0x20 && s[i] <= 0x7e && s[i] != '"' && s[i] != '\\')
	}
	return s
}

var gogarbleLens = []int{0, 1, 2, 8, 12}

func symConfig(tag string, seeded bool) garbleConfig {
	c := garbleConfig{binID: symx.Bytes(tag+"bin", 2)}
	c.gogarble = gogarbleString(tag+"gogarble", gogarbleLens[symx.Choose(tier(4, len(gogarbleLens)))])
	c.literals = symx.Choose(2) == 1
	c.tiny = symx.Choose(2) == 1
	if symx.Thorough() {
		c.ctrlflow = symx.Choose(2) == 1
	}
	if seeded {
		// the whole seed is used for naming, whatever its length
		c.seed = symx.Bytes(tag+"seed", 8+symx.Choose(2))
	}
	return c
}

// smallConfig varies every component but over few shapes (for harnesses where
// the configuration must not matter).
func smallConfig(tag string, seeded bool) garbleConfig {
	c := garbleConfig{binID: symx.Bytes(tag+"bin", 2)}
	c.gogarble = gogarbleString(tag+"gogarble", 2*symx.Choose(2))
	c.literals = symx.Choose(2) == 1
	c.tiny = c.literals != (len(c.gogarble) == 0)
	if seeded {
		c.seed = symx.Bytes(tag+"seed", 8)
	}
	return c
}

// oneLengthClass follows, under the engine, only digests that yield
// 6-character names (1 of the 7 length classes chosen by digest byte 9): the
// relations checked between digests and names do not depend on the class.
func oneLengthClass(name string) {
	if symx.Symbolic() {
		symx.Assume(len(name) == 6)
	}
}

func bytesEq(a, b []byte) bool {
	if len(a) != len(b) {
		return false
	}
	eq := true
	for i := range a {
		eq = symx.And(eq, a[i] == b[i])
	}
	return eq
}

func (c garbleConfig) equal(d garbleConfig) bool {
	return symx.And(symx.And(bytesEq(c.binID, d.binID), c.gogarble == d.gogarble),
		symx.And(symx.And(c.literals == d.literals, c.tiny == d.tiny),
			symx.And(symx.And(bytesEq(c.seed, d.seed), (c.seed == nil) == (d.seed == nil)), symx.And(c.ctrlflow == d.ctrlflow, c.testObf == d.testObf))))
}

// H_C06_key_injective: two configurations that differ in any
// output-affecting input never produce the same tool/action hash.
func H_C06_key_injective() {
	seeded := symx.Choose(2) == 1
	c1 := symConfig("a", seeded)
	c2 := symConfig("b", seeded)
	in1 := symx.Bytes("in1", 2)
	in2 := symx.Bytes("in2", 2)
	c1.apply()
	d1 := addGarbleToHash(in1)
	c2.apply()
	d2 := addGarbleToHash(in2)
	symx.Reach("hashed")
	same := symx.And(c1.equal(c2), bytesEq(in1, in2))
	symx.Observe("digests", d1[:4], d2[:4])
	symx.Assert(symx.Or(same, !bytesEq(d1[:], d2[:])), "different configurations or inputs give different cache keys")
	symx.Assert(symx.Or(!same, bytesEq(d1[:], d2[:])), "equal configurations and inputs give equal cache keys")
}

// H_C06_key_ignores_debug: -debug and -debugdir do not split the cache.
func H_C06_key_ignores_debug() {
	c := symConfig("a", symx.Choose(2) == 1)
	in := symx.Bytes("in", 2)
	c.apply()
	d1 := addGarbleToHash(in)
	flagDebug, flagDebugDir = true, "/tmp/dbg"
	d2 := addGarbleToHash(in)
	symx.Reach("hashed")
	symx.Assert(bytesEq(d1[:], d2[:]), "-debug/-debugdir are not part of the key")
	flagDebug, flagDebugDir = false, ""
}

// H_C06_cache_kinds: the derived cache IDs of one package never coincide.
func H_C06_cache_kinds() {
	var gid [32]byte
	copy(gid[:], symx.Bytes("gid", 32))
	a := goAsmCacheID(gid)
	b := debugArtifactsCacheID(gid, "compile")
	c := debugArtifactsCacheID(gid, "asm")
	symx.Reach("hashed")
	symx.Assert(!bytesEq(a[:], b[:]), "asm-names vs debugdir(compile)")
	symx.Assert(!bytesEq(a[:], c[:]), "asm-names vs debugdir(asm)")
	symx.Assert(!bytesEq(b[:], c[:]), "debugdir(compile) vs debugdir(asm)")
	var gid2 [32]byte
	copy(gid2[:], symx.Bytes("gid2", 32))
	a2 := goAsmCacheID(gid2)
	symx.Assert(symx.Or(bytesEq(gid[:], gid2[:]), !bytesEq(a[:], a2[:])), "different packages, different asm-names IDs")
}

func identString(name string, n int) string {
	s := symx.String(name, n)
	for i := 0; i < len(s); i++ {
		b := s[i]
		letter := symx.Or(symx.Or(b-'a' < 26, b-'A' < 26), b == '_')
		if i == 0 {
			symx.Assume(letter)
		} else {
			symx.Assume(symx.Or(letter, b-'0' < 10))
		}
	}
	return s
}

// anyPath is a short symbolic import path or one of the string constants the
// hashing functions themselves mention (so that a special-cased path is explored).
func anyPath(name string, maxLen int) string {
	var dict []string
	for _, fn := range []string{"hashWithPackage", "hashWithStruct", "hashWithCustomSalt"} {
		for _, s := range minedStrings[fn] {
			if len(s) >= 3 && s[0] != ' ' && s[0] != '%' {
				dict = append(dict, s)
			}
		}
	}
	dict = append(dict, "main", "runtime")
	k := symx.Choose(maxLen + len(dict))
	if k < maxLen {
		return pathString(name, 1+k)
	}
	return dict[k-maxLen]
}

// pathString is an import path: no '|' (not a legal import path byte).
func pathString(name string, n int) string {
	s := symx.String(name, n)
	for i := 0; i < len(s); i++ {
		symx.Assume(s[i] != '|' && s[i] >= 0x21 && s[i] <= 0x7e)
	}
	return s
}

// H_C12_seeded_stable: with -seed the name depends only on seed, import path
// and identifier: not on flags, GOGARBLE, the garble binary or action IDs.
func H_C12_seeded_stable() {
	c1 := smallConfig("a", true)
	c2 := smallConfig("b", true)
	c2.seed = c1.seed
	path := anyPath("path", 2)
	name := identString("name", 1+symx.Choose(2))
	p1 := &listedPackage{ImportPath: path}
	copy(p1.GarbleActionID[:], symx.Bytes("gid1", 32))
	p2 := &listedPackage{ImportPath: path}
	copy(p2.GarbleActionID[:], symx.Bytes("gid2", 32))
	c1.apply()
	n1 := hashWithPackage(p1, name)
	oneLengthClass(n1)
	c2.apply()
	n2 := hashWithPackage(p2, name)
	symx.Reach("hashed")
	symx.Assert(n1 == n2, "seeded names ignore flags, GOGARBLE, binary and action IDs")
}

// H_C12_seeded_distinct: another seed, another package or another identifier
// gives another hash.
func H_C12_seeded_distinct() {
	// the configuration is irrelevant when seeded (H_C12_seeded_stable): one shape
	c1 := garbleConfig{binID: symx.Bytes("bin", 2), gogarble: "*", seed: symx.Bytes("seed", 8)}
	c2 := c1
	which := symx.Choose(3)
	path1 := pathString("path1", 1+symx.Choose(tier(2, 3)))
	name1 := identString("name1", 1+symx.Choose(tier(2, 3)))
	path2, name2 := path1, name1
	switch which {
	case 0:
		c2.seed = symx.Bytes("seed2", 8+symx.Choose(2))
		symx.Assume(!bytesEq(c1.seed, c2.seed))
	case 1:
		path2 = pathString("path2", 1+symx.Choose(tier(2, 3)))
		symx.Assume(path1 != path2)
	case 2:
		// any other (path, name) pair, including the pkgfoo.bar / pkg.foobar shape
		path2 = pathString("path2", 1+symx.Choose(tier(2, 3)))
		name2 = identString("name2", 1+symx.Choose(tier(2, 3)))
		symx.Assume(symx.Or(path1 != path2, name1 != name2))
	}
	// Only digests that yield 6-character names are followed (1 of the 7
	// length classes): the compared digests do not depend on the class.
	c1.apply()
	r1 := hashWithPackage(&listedPackage{ImportPath: path1}, name1)
	if symx.Symbolic() {
		symx.Assume(len(r1) == 6)
	}
	d1 := sumBuffer
	c2.apply()
	r2 := hashWithPackage(&listedPackage{ImportPath: path2}, name2)
	if symx.Symbolic() {
		symx.Assume(len(r2) == 6)
	}
	d2 := sumBuffer
	symx.Reach("hashed")
	symx.Assert(!bytesEq(d1[:], d2[:]), "distinct (seed, package, identifier) hash differently")
}

// H_C12_unseeded_pkg: without -seed the package-scoped names follow the
// package's garble action ID (which H_C06_key_injective ties to every input).
func H_C12_unseeded_pkg() {
	c := smallConfig("a", false)
	name := identString("name", 1+symx.Choose(2))
	p1 := &listedPackage{ImportPath: "x"}
	copy(p1.GarbleActionID[:], symx.Bytes("gid1", 32))
	p2 := &listedPackage{ImportPath: "x"}
	copy(p2.GarbleActionID[:], symx.Bytes("gid2", 32))
	c.apply()
	oneLengthClass(hashWithPackage(p1, name))
	d1 := sumBuffer
	oneLengthClass(hashWithPackage(p2, name))
	d2 := sumBuffer
	symx.Reach("hashed")
	symx.Assert(symx.Or(bytesEq(p1.GarbleActionID[:], p2.GarbleActionID[:]), !bytesEq(d1[:], d2[:])), "another action ID, another name hash")
	symx.Assert(symx.Or(!bytesEq(p1.GarbleActionID[:], p2.GarbleActionID[:]), bytesEq(d1[:], d2[:])), "same action ID, same name hash")
}

func twoFieldStruct() (*types.Struct, *types.Var) {
	pkg := types.NewPackage("p", "p")
	f1 := types.NewField(token.NoPos, pkg, "Alpha", types.Typ[types.Int], false)
	f2 := types.NewField(token.NoPos, pkg, "beta", types.Typ[types.String], false)
	return types.NewStruct([]*types.Var{f1, f2}, []string{"", `json:"b"`}), f1
}

// H_C12_fields: field names depend on the struct, the garble binary, GOGARBLE
// and the flags when unseeded, on the seed alone when seeded, never on a
// package's action ID.
func H_C12_fields() {
	seeded := symx.Choose(2) == 1
	c1 := smallConfig("a", seeded)
	c2 := smallConfig("b", seeded)
	st, f := twoFieldStruct()
	c1.apply()
	n1 := hashWithStruct(st, f)
	oneLengthClass(n1)
	d1 := sumBuffer
	c2.apply()
	n2 := hashWithStruct(st, f)
	d2 := sumBuffer
	symx.Reach("hashed")
	if seeded {
		symx.Assert(symx.Or(!bytesEq(c1.seed, c2.seed), n1 == n2), "seeded field names depend on the seed only")
		symx.Assert(symx.Or(bytesEq(c1.seed, c2.seed), !bytesEq(d1[:], d2[:])), "another seed, another field hash")
	} else {
		symx.Assert(symx.Or(!c1.equal(c2), n1 == n2), "same inputs, same field name")
		symx.Assert(symx.Or(c1.equal(c2), !bytesEq(d1[:], d2[:])), "field names change with flags, GOGARBLE and the garble binary")
	}
}

// H_C12_runtime_keys: magic value and entry-offset key follow the same rule
// and never share their hash input.
func H_C12_runtime_keys() {
	seeded := symx.Choose(2) == 1
	c := smallConfig("a", seeded)
	c.apply()
	rt := &listedPackage{ImportPath: "runtime"}
	copy(rt.GarbleActionID[:], symx.Bytes("rtid", 32))
	sharedCache.ListedPackages.set("runtime", rt)
	magicValue()
	d1 := sumBuffer
	entryOffKey()
	d2 := sumBuffer
	symx.Reach("hashed")
	symx.Assert(!bytesEq(d1[:], d2[:]), "magic value and entry offset key hash different inputs")
	// dependence on the seed / the runtime's action ID
	var old [32]byte
	if seeded {
		flagSeed = seedFlag{bytes: symx.Bytes("seed2", 8)}
		symx.Assume(!bytesEq(flagSeed.bytes, c.seed))
	} else {
		old = rt.GarbleActionID
		copy(rt.GarbleActionID[:], symx.Bytes("rtid2", 32))
		symx.Assume(!bytesEq(old[:], rt.GarbleActionID[:]))
	}
	magicValue()
	d3 := sumBuffer
	symx.Assert(!bytesEq(d1[:], d3[:]), "magic value follows the seed / the runtime action ID")
}

// H_C12_seedflag: -seed parsing: padded and unpadded base64 of >= 8 bytes is
// accepted and round-trips; shorter seeds are rejected.
func H_C12_seedflag() {
	n := 6 + symx.Choose(5) // 6..10 bytes
	seed := symx.Bytes("seed", n)
	var f0 seedFlag
	f0.bytes = seed
	s := f0.String()
	pad := symx.Choose(3)
	in := s
	for i := 0; i < pad; i++ {
		in += "="
	}
	var f seedFlag
	err := f.Set(in)
	symx.Reach("set")
	if n < 8 {
		symx.Assert(err != nil, "seeds shorter than 8 bytes are rejected")
		return
	}
	symx.Assert(err == nil, "base64 seeds of 8 or more bytes are accepted, padded or not")
	symx.Assert(f.present(), "a parsed seed is present")
	symx.Assert(bytesEq(f.bytes, seed), "the parsed seed is the encoded one")
	symx.Assert(f.String() == s, "String round-trips")
	symx.Observe("seed", in, f.bytes)
}

// H_C12_unseeded_flags: without -seed, changing exactly one garble input
// changes the package's action-ID salt and with it every package-scoped name.
func H_C12_unseeded_flags() {
	c1 := smallConfig("a", false)
	c2 := c1
	switch symx.Choose(4) {
	case 0:
		c2.literals = !c1.literals
	case 1:
		c2.tiny = !c1.tiny
	case 2:
		c2.gogarble = gogarbleString("bgogarble", len(c1.gogarble))
		symx.Assume(c1.gogarble != c2.gogarble)
	case 3:
		c2.binID = symx.Bytes("bbin", 2)
		symx.Assume(!bytesEq(c1.binID, c2.binID))
	}
	action := symx.Bytes("action", 2)
	name := identString("name", 1)
	c1.apply()
	p1 := &listedPackage{ImportPath: "x", GarbleActionID: addGarbleToHash(action)}
	r1 := hashWithPackage(p1, name)
	if symx.Symbolic() {
		symx.Assume(len(r1) == 6) // one of the 7 length classes; the digests compared do not depend on it
	}
	d1 := sumBuffer
	c2.apply()
	p2 := &listedPackage{ImportPath: "x", GarbleActionID: addGarbleToHash(action)}
	r2 := hashWithPackage(p2, name)
	if symx.Symbolic() {
		symx.Assume(len(r2) == 6)
	}
	d2 := sumBuffer
	symx.Reach("hashed")
	symx.Assert(!bytesEq(p1.GarbleActionID[:], p2.GarbleActionID[:]), "another flag set, GOGARBLE or garble binary: another action-ID salt")
	symx.Assert(!bytesEq(d1[:], d2[:]), "another flag set, GOGARBLE or garble binary: another name hash")
}
