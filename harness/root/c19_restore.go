package main

import (
	"os"
	"path/filepath"

	"github.com/rogpeppe/go-internal/cache"

	"mvdan.cc/garble/internal/symx"
)

// H_C19_debugdir_restore: after a build on partially warm caches, the real
// restoreDebugDirFromCache must leave an owned -debugdir that holds the
// complete source and garbled trees of every package of the build: the
// packages recompiled in this build were written by the toolexec children
// (any subset, chosen by the solver), everything else has to come from the
// cached debug artifacts. Import paths nest (example.com/lib and
// example.com/lib/extra), one package has an assembly entry of its own kind.
// File contents are symbolic bytes. Inside the engine the cache lookup is
// replaced by a table (loadDebugArtifactsForPkg); natively the artifacts are
// saved with the real saveDebugArtifactsForPkg into a real GARBLE_CACHE first.
func H_C19_debugdir_restore() {
	defer symx.FSCleanup()
	root := symx.FSRoot()
	flagDebugDir = root + "/dbg"
	symx.FSMkdir(flagDebugDir)
	sharedCache = &sharedCacheType{ListedPackages: newListedPackages(), CacheDir: root + "/cache"}

	type art struct {
		path, kind string
		a          cachedDebugArtifacts
	}
	content := func(tag string) []byte { return symx.Bytes(tag, 2) }
	mk := func(tag string, files ...string) cachedDebugArtifacts {
		a := cachedDebugArtifacts{SourceFiles: map[string][]byte{}, GarbledFiles: map[string][]byte{}}
		for _, f := range files {
			a.SourceFiles[f] = content(tag + f + "s")
			a.GarbledFiles[f] = content(tag + f + "g")
		}
		return a
	}
	arts := []art{
		{"example.com/lib", debugCacheKindCompile, mk("l", "lib.go", "util.go")},
		{"example.com/lib", debugCacheKindAsm, mk("la", "add.s")},
		{"example.com/lib/extra", debugCacheKindCompile, mk("e", "extra.go")},
		{"example.com/app", debugCacheKindCompile, mk("m", "main.go")},
	}
	ids := map[string]string{"example.com/lib": "1", "example.com/lib/extra": "2", "example.com/app": "3"}
	for path, id := range ids {
		l := &listedPackage{Name: filepath.Base(path), ImportPath: path, ToObfuscate: true}
		copy(l.GarbleActionID[:], id+"0123456789abcdef0123456789abcde")
		sharedCache.ListedPackages.set(path, l)
	}
	// a package without an action ID (nothing to restore) is skipped
	sharedCache.ListedPackages.set("unsafe", &listedPackage{Name: "unsafe", ImportPath: "unsafe", Standard: true})

	if symx.Symbolic() {
		symx.Stub("mvdan.cc/garble.openCache", func() (*cache.Cache, error) { return nil, nil })
		symx.Stub("mvdan.cc/garble.loadDebugArtifactsForPkg", func(c *cache.Cache, l *listedPackage, kind string) (cachedDebugArtifacts, bool, error) {
			for _, a := range arts {
				if a.path == l.ImportPath && a.kind == kind {
					return a.a, true, nil
				}
			}
			return cachedDebugArtifacts{}, false, nil
		})
	} else {
		for _, a := range arts {
			l, _ := sharedCache.ListedPackages.get(a.path)
			if err := saveDebugArtifactsForPkg(l, a.kind, a.a); err != nil {
				symx.Fail("saving the artifacts: " + err.Error())
				return
			}
		}
	}

	// what the toolexec children of this build wrote: the files of the recompiled packages
	recompiled := symx.Choose(8) // bit per package
	for i, path := range []string{"example.com/lib", "example.com/lib/extra", "example.com/app"} {
		if recompiled&(1<<i) == 0 {
			continue
		}
		l, _ := sharedCache.ListedPackages.get(path)
		for _, a := range arts {
			if a.path != path {
				continue
			}
			for f, c := range a.a.SourceFiles {
				writeDebugDirFile(debugDirSourceSubdir, l, f, c)
			}
			for f, c := range a.a.GarbledFiles {
				writeDebugDirFile(debugDirGarbledSubdir, l, f, c)
			}
		}
	}
	// something next to the debug dir that is not garble's
	symx.FSWriteFile(root+"/keep.txt", "mine")

	err := restoreDebugDirFromCache()
	symx.Reach("restored")
	if err != nil {
		symx.Fail("restoreDebugDirFromCache: " + err.Error())
		return
	}
	n := 0
	for _, a := range arts {
		for _, sub := range []string{debugDirSourceSubdir, debugDirGarbledSubdir} {
			files := a.a.SourceFiles
			if sub == debugDirGarbledSubdir {
				files = a.a.GarbledFiles
			}
			for f, want := range files {
				p := filepath.Join(flagDebugDir, sub, a.path, f)
				got, err := os.ReadFile(p)
				if err != nil {
					symx.Fail("the debug dir lacks " + sub + "/" + a.path + "/" + f + " after a build that recompiled only some packages")
					continue
				}
				symx.Assert(string(got) == string(want), "the debug dir holds the cached content of "+sub+"/"+a.path+"/"+f)
				n++
			}
		}
	}
	if s, ok := symx.FSReadFile(root + "/keep.txt"); !ok || s != "mine" {
		symx.Fail("a file outside the debug dir was touched")
	}
	symx.Observe("files", n)
}
