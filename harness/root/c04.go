package main

import (
	"bytes"
	"strings"

	"mvdan.cc/garble/internal/symx"
)

// C04-K1: reverseContent streams its input line by line through the replacer
// and (a) produces exactly the replacement of the whole text when no key
// contains a newline, (b) passes text without keys through byte for byte,
// (c) reports modified iff the output differs from the input.

var reverseKeySets = [][]string{
	{"Ab", "pkg/f.go"},
	{"H.go:1", "p/f.go:12", "H.go", "p/f.go"}, // position pair listed before the bare file pair
	{"ab", "X", "a", "Y"},
	{"xy", "x", "y", "yy"},
}

func H_C04_reverse_content() {
	pairs := reverseKeySets[symx.Choose(len(reverseKeySets))]
	n := symx.Choose(tier(3, 5) + 1) // 0..n bytes, any value: newlines, CRs, no final newline
	in := symx.String("in", n)
	var out bytes.Buffer
	modified, err := reverseContent(&out, strings.NewReader(in), strings.NewReplacer(pairs...))
	symx.Reach("reversed")
	symx.Assert(err == nil, "no error on an in-memory reader")
	got := out.String()
	want := refReplace(pairs, in)
	symx.Assert(got == want, "line-wise replacement equals replacing the whole text")
	symx.Assert(modified == (got != in), "modified is reported iff something changed")
	occurs := false
	for k := 0; k < len(pairs); k += 2 {
		for i := 0; i+len(pairs[k]) <= len(in); i++ {
			occurs = symx.Or(occurs, in[i:i+len(pairs[k])] == pairs[k])
		}
	}
	symx.Assert(symx.Or(occurs, got == in), "text without obfuscated names passes through byte for byte")
	symx.Assert(symx.Or(occurs, !modified), "nothing replaced, nothing reported")
	symx.Observe("reverse", in, got, modified)
}

// H_C04_reverse_long_line (not registered: it does not finish within five minutes in the engine,
// see DESIGN.md section 8, C04-6): a key that straddles the 4096-byte mark of bufio's
// buffer inside one long line is still replaced (lines are read whole).
func H_C04_reverse_long_line() {
	pairs := reverseKeySets[0]
	k := 1 + symx.Choose(2) // the symbolic text starts 1..2 bytes before the mark
	tail := symx.String("in", 2)
	in := strings.Repeat(".", 4096-k) + tail + "z\n"
	var out bytes.Buffer
	modified, err := reverseContent(&out, strings.NewReader(in), strings.NewReplacer(pairs...))
	symx.Reach("reversed")
	symx.Assert(err == nil, "no error on an in-memory reader")
	got := out.String()
	want := strings.Repeat(".", 4096-k) + refReplace(pairs, tail+"z\n")
	symx.Assert(got == want, "a key across a read boundary is replaced like anywhere else")
	symx.Assert(modified == (got != in), "modified is reported iff something changed")
}
