package main

import (
	"go/token"
	"go/types"

	"mvdan.cc/garble/internal/symx"
)

// C15-K1: struct types that are identical under Go's type identity (which
// ignores tags) get the same identity hash and therefore the same obfuscated
// field names, however their field types are spelled.

// fieldType returns one of several spellings of types that may or may not be
// identical: the harness relies on types.Identical, not on its own judgement.
func fieldType(pkg *types.Package, named *types.Named, k int) types.Type {
	switch k {
	case 0:
		return types.Typ[types.Int]
	case 1:
		return named
	case 2: // an alias of the named type
		return types.NewAlias(types.NewTypeName(token.NoPos, pkg, "A", nil), named)
	case 3:
		return types.NewPointer(named)
	case 4: // pointer to the alias
		return types.NewPointer(types.NewAlias(types.NewTypeName(token.NoPos, pkg, "A", nil), named))
	case 5:
		return types.NewSlice(types.Typ[types.String])
	case 7: // an anonymous struct written out
		return c15Anon(pkg)
	case 8: // an alias of that anonymous struct
		return types.NewAlias(types.NewTypeName(token.NoPos, pkg, "P", nil), c15Anon(pkg))
	case 9: // an anonymous struct with other field names: not identical to 7 and 8
		return types.NewStruct([]*types.Var{
			types.NewField(token.NoPos, pkg, "X", types.Typ[types.Int], false),
			types.NewField(token.NoPos, pkg, "Z", types.Typ[types.Int], false),
		}, nil)
	case 10: // slice of the anonymous struct / of its alias
		return types.NewSlice(c15Anon(pkg))
	case 11:
		return types.NewSlice(types.NewAlias(types.NewTypeName(token.NoPos, pkg, "P", nil), c15Anon(pkg)))
	default: // the byte / uint8 alias pair
		return types.Universe.Lookup("byte").Type()
	}
}

func c15Anon(pkg *types.Package) *types.Struct {
	return types.NewStruct([]*types.Var{
		types.NewField(token.NoPos, pkg, "X", types.Typ[types.Int], false),
		types.NewField(token.NoPos, pkg, "Y", types.Typ[types.Int], false),
	}, nil)
}

func H_C15_identical_structs() {
	flagSeed = seedFlag{bytes: []byte("12345678")}
	pkg1 := types.NewPackage("example.com/a", "a")
	named := types.NewNamed(types.NewTypeName(token.NoPos, pkg1, "T", nil), types.Typ[types.Int], nil)
	n1 := asciiIdent("f1", 1+symx.Choose(tier(1, 2)))
	n2 := asciiIdent("f2", 1)
	nb1, nb2 := n1, n2
	if symx.Choose(2) == 1 {
		// independently chosen names on the second struct: identity then forces them equal
		nb1 = asciiIdent("g1", len(n1))
		nb2 = asciiIdent("g2", 1)
	}
	emb := symx.Choose(2) == 1
	// spellings of the first field's type in the two structs
	pairs := [][2]int{{0, 0}, {1, 1}, {1, 2}, {2, 1}, {3, 4}, {4, 3}, {6, 6}, {5, 5}, {1, 3}, {0, 1}, {7, 7}, {7, 8}, {8, 7}, {7, 9}, {10, 11}}
	p := pairs[symx.Choose(len(pairs))]
	mk := func(a, b string, ka int, tags []string) *types.Struct {
		fa := types.NewField(token.NoPos, pkg1, a, fieldType(pkg1, named, ka), false)
		fb := types.NewField(token.NoPos, pkg1, b, named, emb)
		return types.NewStruct([]*types.Var{fa, fb}, tags)
	}
	tag := symx.String("tag", 1)
	if emb {
		n2, nb2 = "T", "T" // an embedded field is named after its type
	}
	symx.Assume(n1 != n2)
	symx.Assume(nb1 != nb2)
	s1 := mk(n1, n2, p[0], []string{"x", ""})
	s2 := mk(nb1, nb2, p[1], []string{tag, "y"})
	identical := types.IdenticalIgnoreTags(s1, s2)
	symx.Reach("compared")
	if !identical {
		return
	}
	symx.Reach("identical")
	symx.Assert(typeutil_hash(s1) == typeutil_hash(s2), "identical struct types have the same identity hash")
	f1 := hashWithStruct(s1, s1.Field(0))
	oneLengthClass(f1)
	symx.Assert(f1 == hashWithStruct(s2, s2.Field(0)), "identical struct types get identical field names")
}

// C15-K2: a field of an instantiated generic struct gets the name of the same
// field of the struct type written out by hand, which is an identical type
// (conversions between the two compile). garble names the former through the
// generic origin (recordFieldToStruct + Origin), the latter directly.
func H_C15_generic_instances() {
	flagSeed = seedFlag{bytes: []byte("12345678")}
	symx.DigestClass(neededSumBytes, maxHashLength-minHashLength+1, 0)
	pkg := types.NewPackage("example.com/a", "a")
	named := types.NewNamed(types.NewTypeName(token.NoPos, pkg, "N", nil), types.Typ[types.Int], nil)
	tp := types.NewTypeParam(types.NewTypeName(token.NoPos, pkg, "T", nil), types.Universe.Lookup("any").Type())
	fname := asciiIdent("field", 1)
	symx.Assume(fname != "n" && fname != "_")
	second := symx.Choose(2) == 1 // the type parameter in the second field instead of the first
	mk := func(t types.Type) *types.Struct {
		fa := types.NewField(token.NoPos, pkg, fname, t, false)
		fb := types.NewField(token.NoPos, pkg, "n", types.Typ[types.Int], false)
		if second {
			fa = types.NewField(token.NoPos, pkg, fname, types.Typ[types.Int], false)
			fb = types.NewField(token.NoPos, pkg, "n", t, false)
		}
		return types.NewStruct([]*types.Var{fa, fb}, nil)
	}
	box := types.NewNamed(types.NewTypeName(token.NoPos, pkg, "Box", nil), nil, nil)
	box.SetTypeParams([]*types.TypeParam{tp})
	box.SetUnderlying(mk(tp))
	args := []types.Type{
		types.Typ[types.Int],
		types.Typ[types.String],
		types.NewSlice(types.Typ[types.Byte]),
		types.NewPointer(types.Typ[types.Int]),
		types.NewMap(types.Typ[types.String], types.Typ[types.Int]),
		types.NewSignatureType(nil, nil, nil, nil, nil, false),
		types.NewStruct(nil, nil),
		named,
		types.NewPointer(named),
		types.NewArray(types.Typ[types.Int], 2),
		types.NewChan(types.SendRecv, types.Typ[types.Bool]),
	}
	arg := args[symx.Choose(len(args))]
	inst, err := types.Instantiate(nil, box, []types.Type{arg}, false)
	if err != nil {
		symx.Fail("instantiate: " + err.Error())
		return
	}
	is := inst.Underlying().(*types.Struct)
	lit := mk(arg)
	symx.Reach("instantiated")
	if !types.Identical(is, lit) {
		symx.Fail("go/types does not consider the instantiated struct and the hand-written one identical")
		return
	}
	done := make(map[*types.Named]bool)
	fieldToStruct := make(map[*types.Var]*types.Struct)
	recordFieldToStruct(inst, done, fieldToStruct)
	recordFieldToStruct(lit, done, fieldToStruct)
	for k := 0; k < 2; k++ {
		fi, fl := is.Field(k).Origin(), lit.Field(k).Origin()
		si, sl := fieldToStruct[fi], fieldToStruct[fl]
		symx.Assert(si != nil && sl != nil, "every field is recorded under a struct")
		if si == nil || sl == nil {
			return
		}
		symx.Assert(hashWithStruct(si, fi) == hashWithStruct(sl, fl), "a field of an instantiated generic struct and of the identical hand-written struct get the same name")
	}
	symx.Reach("named")
}
