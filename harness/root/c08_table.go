package main

import (
	"strings"

	"mvdan.cc/garble/internal/symx"
)

const c08MainSrc = `package main

func main() { println(len(other())) }

func other() string { return "x" }
`

// H_C08_name_table_installed: the run-time name table lives in a variable that
// the compile step of package main appends to its first file
// (reflectMainPrePatch), renames like any other declaration (transformGoFile)
// and later fills by searching the printed file for `<name> = []string{`
// (reflectMainPostPatch). The two sites must agree on the name whether or not
// package main itself is inside GOGARBLE: names of obfuscated dependencies
// that reach reflection need restoring either way.
func H_C08_name_table_installed() {
	defer symx.FSCleanup()
	flagSeed = seedFlag{}
	if symx.Choose(tier(1, 2)) == 1 { // thorough: also with a seed
		flagSeed = seedFlag{bytes: symx.Bytes("seed", 8)}
	}
	symx.Stub("mvdan.cc/garble.hashWithCustomSalt", c13HashSummary)
	symx.DigestPrefixFree(5)
	mainObf := symx.Choose(2) == 0
	id := symx.Bytes("actionID", 32)
	id2 := append([]byte{symx.Byte("actionID2")}, id[1:]...)
	symx.Assume(id2[0] != id[0])
	var lpkg *listedPackage
	if symx.Symbolic() {
		reflectAbiCode = genReflectAbiCode // a go:embed variable, not initialised inside the engine
		lpkg = c13Engine("main", c08MainSrc, mainObf, id, id2)
	} else {
		defer c13Native("main", c08MainSrc, mainObf)()
		if _, err := c13Map(); err != nil {
			symx.Fail("garble map failed: " + err.Error())
			return
		}
		lpkg, _ = sharedCache.ListedPackages.get(c13Path)
		if lpkg == nil {
			symx.Fail("go list did not list " + c13Path)
			return
		}
	}
	tf, _, orig := c13BuildView(lpkg, false)
	if tf == nil {
		return
	}
	built := ""
	for ident, name := range orig {
		if name == "_originalNamePairs" && tf.info.Defs[ident] != nil {
			built = ident.Name
		}
	}
	symx.Reach("built")
	symx.Assert(built != "", "the compile step declares the name table in package main")
	if built == "" {
		return
	}
	// what printFile emits for that declaration, reduced to the line the patch looks for
	file := []byte("package main\n\nvar " + built + " = []string{}\n")
	out := string(reflectMainPostPatch(file, lpkg, pkgCache{ReflectObjectNames: map[string]string{"Qx1abcd": "Orig"}}))
	symx.Assert(strings.HasSuffix(out, " = []string{\"Qx1abcd\", \"Orig\",}\n"), "the name pairs are written into the table the build declared")
	symx.Observe("installed", strings.Contains(out, "Orig"))
}
