package main

import (
	"mvdan.cc/garble/internal/symx"
)

// H_C03_hash_pure: the name hash is a function of (salt, seed, name): the
// package-level hasher and buffers carry nothing from one call to the next.
func H_C03_hash_pure() {
	c := smallConfig("a", symx.Choose(2) == 1)
	c.apply()
	salt := symx.Bytes("salt", 1+symx.Choose(2))
	name := identString("name", 1+symx.Choose(2))
	r1 := hashWithCustomSalt(salt, name)
	if symx.Symbolic() {
		symx.Assume(len(r1) == 6) // follow one of the 7 length classes
	}
	// interleave other users of the shared hasher and buffers
	switch symx.Choose(3) {
	case 0:
		addGarbleToHash(symx.Bytes("other", 3))
	case 1:
		o := hashWithCustomSalt(symx.Bytes("othersalt", 2), "zz")
		if symx.Symbolic() {
			symx.Assume(len(o) == 7)
		}
	case 2:
		rt := &listedPackage{ImportPath: "runtime"}
		sharedCache.ListedPackages.set("runtime", rt)
		magicValue()
	}
	r2 := hashWithCustomSalt(salt, name)
	symx.Reach("twice")
	symx.Assert(r1 == r2, "same (salt, seed, name) gives the same name regardless of calls in between")
}
