package main

import (
	"errors"
	"os"

	"github.com/rogpeppe/go-internal/cache"

	"mvdan.cc/garble/internal/symx"
)

// C19: garble touches only its own files. The file system and environment
// are an in-engine model (natively: the real ones below a scratch root).

func stubIO() {
	// the I/O-bound steps of toolexecCmd, replaced by their file-system effects
	symx.Stub("mvdan.cc/garble.fetchGoEnv", func() error {
		sharedCache.GoEnv.GOVERSION = "go1.26.2"
		sharedCache.GoEnv.GOROOT = "/goroot"
		sharedCache.GoEnv.GOOS, sharedCache.GoEnv.GOARCH = "linux", "amd64"
		return nil
	})
	symx.Stub("mvdan.cc/garble.buildidOf", func(path string) (string, error) {
		return "a/b/c/AAAAAAAAAAAAAAAAAAAA\n", nil
	})
	symx.Stub("mvdan.cc/garble.appendListedPackages", func(pkgs []string, mainBuild bool) error { return nil })
	symx.Stub("mvdan.cc/garble.saveSharedCache", func() (string, error) { return os.MkdirTemp("", "garble-shared") })
	symx.Stub("mvdan.cc/garble.debugDirNeedsRebuild", func() (bool, error) { return false, nil })
	if symx.Symbolic() {
		// GARBLE_CACHE itself (rogpeppe/go-internal/cache) is not part of the model
		openCache = func() (*cache.Cache, error) { return nil, errNoCacheModel }
	}
}

var errNoCacheModel = errors.New("GARBLE_CACHE is not modelled")

// H_C19_shared_cleanup: a command that fails before it created its shared
// directory must not remove a GARBLE_SHARED directory it merely inherited
// (every process started by a garble build inherits that variable).
func H_C19_shared_cleanup() {
	defer symx.FSCleanup()
	stubIO()
	root := symx.FSRoot()
	inherited := symx.Choose(2) == 1
	dir := root + "/outer-shared"
	if inherited {
		symx.FSWriteFile(dir+"/main-cache.gob", "outer build state")
		symx.Setenv("GARBLE_SHARED", dir)
	} else {
		symx.Setenv("GARBLE_SHARED", "")
	}
	sharedTempDir = os.Getenv("GARBLE_SHARED")
	sharedCache = nil
	flagDebugDir = ""
	command := []string{"build", "test", "run"}[symx.Choose(3)]
	// a garble flag after the command: rejected before anything is created
	err := mainErr([]string{command, "-tiny", "./internal/asthelper"})
	symx.Reach("returned")
	symx.Assert(err != nil, "the misplaced flag is rejected")
	if inherited {
		symx.Assert(symx.FSExists(dir+"/main-cache.gob"), "an inherited GARBLE_SHARED directory is left alone when the command fails early")
	}
	symx.Observe("after", command, inherited, symx.FSExists(dir+"/main-cache.gob"))
}

// H_C19_debugdir_owner: -debugdir empties a directory only if it is empty or
// carries garble's marker; anything else is refused and left untouched.
func H_C19_debugdir_owner() {
	defer symx.FSCleanup()
	stubIO()
	root := symx.FSRoot()
	symx.Setenv("GARBLE_SHARED", "")
	symx.Setenv("GARBLE_CACHE", root+"/cache")
	sharedTempDir, sharedCache = "", nil
	dbg := root + "/dbg"
	canary := root + "/src/main.go"
	symx.FSWriteFile(canary, "package main")
	state := symx.Choose(6)
	switch state {
	case 0: // absent
	case 1: // empty
		symx.FSMkdir(dbg)
	case 2: // owned by an earlier garble run
		symx.FSWriteFile(dbg+"/.garble-debugdir", "")
		symx.FSWriteFile(dbg+"/source/x/x.go", "old")
	case 3: // foreign file
		symx.FSWriteFile(dbg+"/notes.txt", "mine")
	case 4: // foreign sub-directory
		symx.FSWriteFile(dbg+"/sub/keep.txt", "mine")
	case 5: // a regular file where the directory should be
		symx.FSWriteFile(dbg, "mine")
	}
	flagDebugDir = dbg
	_, err := toolexecCmd("build", []string{"./internal/asthelper"})
	symx.Reach("returned")
	switch state {
	case 0, 1, 2:
		symx.Assert(err == nil, "an absent, empty or garble-owned debug directory is accepted")
		symx.Assert(symx.FSExists(dbg+"/.garble-debugdir"), "the marker is (re)created")
		symx.Assert(!symx.FSExists(dbg+"/source/x/x.go"), "an owned directory is emptied")
	case 3:
		symx.Assert(err != nil, "a directory with foreign files is refused")
		c, ok := symx.FSReadFile(dbg + "/notes.txt")
		symx.Assert(ok && c == "mine", "foreign files are left untouched")
	case 4:
		symx.Assert(err != nil, "a directory with a foreign sub-directory is refused")
		c, ok := symx.FSReadFile(dbg + "/sub/keep.txt")
		symx.Assert(ok && c == "mine", "foreign sub-directories are left untouched")
	case 5:
		symx.Assert(err != nil, "a regular file is refused")
		c, ok := symx.FSReadFile(dbg)
		symx.Assert(ok && c == "mine", "the regular file is left untouched")
	}
	c, ok := symx.FSReadFile(canary)
	symx.Assert(ok && c == "package main", "the source tree is untouched")
	symx.Observe("state", state, err == nil)
	// clean up what a real run would remove at the end of mainErr
	if d := os.Getenv("GARBLE_SHARED"); d != "" {
		os.RemoveAll(d)
	}
	flagDebugDir = ""
}

// H_C19_tmp_clean: when -debugdir refuses its target the command fails, and
// the shared temporary directory it had already created is gone from TMPDIR.
func H_C19_tmp_clean() {
	defer symx.FSCleanup()
	stubIO()
	root := symx.FSRoot()
	tmp := root + "/tmp"
	symx.FSMkdir(tmp)
	symx.Setenv("TMPDIR", tmp)
	symx.Setenv("GARBLE_SHARED", "")
	symx.Setenv("GARBLE_CACHE", root+"/cache")
	sharedTempDir, sharedCache = "", nil
	dbg := root + "/dbg"
	switch symx.Choose(3) {
	case 0:
		symx.FSWriteFile(dbg+"/notes.txt", "mine")
	case 1:
		symx.FSWriteFile(dbg+"/sub/keep.txt", "mine")
	case 2:
		symx.FSWriteFile(dbg, "mine")
	}
	flagDebugDir = dbg
	err := mainErr([]string{"build", "./internal/asthelper"})
	flagDebugDir = ""
	symx.Reach("returned")
	symx.Assert(err != nil, "the foreign debug directory is refused")
	left := symx.FSList(tmp)
	symx.Assert(len(left) == 0, "nothing of garble's is left in TMPDIR after the failure")
	symx.Observe("left", len(left))
}
