package main

import (
	"strings"

	"mvdan.cc/garble/internal/symx"
)

// C02 (what garble hands to the toolchain) and the -X clause of C01.

// lastWins reads a tool command line the way the flag package does: the last
// occurrence of -name=value or -name value wins. ok=false if the flag is absent.
func lastWins(flags []string, name string, valued map[string]bool) (val string, ok bool) {
	for i := 0; i < len(flags); i++ {
		a := flags[i]
		n, v, hasEq := strings.Cut(a, "=")
		if hasEq {
			if n == name {
				val, ok = v, true
			}
			continue
		}
		if valued[a] && i+1 < len(flags) {
			if a == name {
				val, ok = flags[i+1], true
			}
			i++
			continue
		}
		if a == name {
			val, ok = "", true
		}
	}
	return
}

// importCfgFile is the importcfg handed to transformLink: under the engine
// processImportCfg is stubbed; natively a real (empty) file is provided and the
// real function rewrites it into garble's temp dir.
func importCfgFile() string {
	if symx.Symbolic() {
		return "/tmp/b001/importcfg.link"
	}
	root := symx.FSRoot()
	sharedTempDir = root
	symx.FSWriteFile(root+"/importcfg.link", "# import config\n")
	return root + "/importcfg.link"
}

var linkValued = map[string]bool{"-o": true, "-importcfg": true, "-buildid": true, "-X": true, "-extld": true, "-buildmode": true, "-installsuffix": true}

// upperText is text that cannot occur in the other (lower-case) arguments.
func upperText(name string, n int) string {
	s := symx.String(name, n)
	for i := 0; i < len(s); i++ {
		symx.Assume(s[i] >= 'A' && s[i] <= 'Z')
	}
	return s
}

func shortText(name string, n int) string {
	s := symx.String(name, n)
	for i := 0; i < len(s); i++ {
		symx.Assume(s[i] > ' ' && s[i] < 0x7f && s[i] != '=' && s[i] != '-')
	}
	return s
}

// H_C02_link_flags: whatever shape the incoming linker command line has, the
// outgoing one has an empty build ID, -w, -s, the neutral buildVersion and the
// rewritten importcfg; the objects stay last and in order.
func H_C02_link_flags() {
	symx.Stub("(*mvdan.cc/garble.transformer).processImportCfg", func(tf *transformer, flags, req []string) (string, error) {
		return "/tmp/garble-importcfg", nil
	})
	sharedCache = &sharedCacheType{ListedPackages: newListedPackages()}
	flagSeed = seedFlag{bytes: []byte("12345678")}
	tf := &transformer{curPkg: &listedPackage{Name: "main", ImportPath: "example.com/cmd", ToObfuscate: true}}
	defer symx.FSCleanup()
	origCfg := importCfgFile()
	var args []string
	args = append(args, "-o", "/tmp/out/"+shortText("out", 1))
	switch symx.Choose(2) {
	case 0:
		args = append(args, "-importcfg", origCfg)
	case 1:
		args = append(args, "-importcfg="+origCfg)
	}
	bid := upperText("bid", 1+symx.Choose(2)) + "/" + upperText("bid2", 1)
	switch symx.Choose(3) {
	case 0:
		args = append(args, "-buildid="+bid)
	case 1:
		args = append(args, "-buildid", bid)
	case 2: // absent
	}
	args = append(args, "-buildmode=exe")
	if symx.Choose(2) == 1 {
		args = append(args, "-extld=gcc")
	}
	obj := "/tmp/b001/_pkg_.a"
	args = append(args, obj)
	out, err := tf.transformLink(args)
	symx.Reach("linked")
	symx.Assert(err == nil, "no error")
	symx.Assert(len(out) > 0 && out[len(out)-1] == obj, "the object file stays the last argument")
	flags := out[:len(out)-1]
	v, ok := lastWins(flags, "-buildid", linkValued)
	symx.Assert(ok && v == "", "the build ID handed to the linker is empty")
	_, w := lastWins(flags, "-w", linkValued)
	_, s := lastWins(flags, "-s", linkValued)
	symx.Assert(w && s, "-w and -s are passed")
	cfg, ok := lastWins(flags, "-importcfg", linkValued)
	symx.Assert(ok && cfg != "" && cfg != origCfg, "the linker reads the rewritten importcfg")
	foundBV := false
	for i, a := range flags {
		if a == "-X=runtime.buildVersion=unknown" {
			foundBV = true
		}
		_ = i
	}
	symx.Assert(foundBV, "runtime.buildVersion is neutralised")
	for _, a := range flags {
		symx.Assert(!strings.Contains(a, bid), "the original build ID appears nowhere")
	}
}

// H_C02_trimpath: the temporary directory is trimmed before any user rewrite:
// a path below it never keeps the directory as a prefix.
func H_C02_trimpath() {
	t := symx.String("t", 1) // os.MkdirTemp appends decimal digits
	symx.Assume(t[0] >= '0' && t[0] <= '9')
	sharedTempDir = "/tmp/garble-shared" + t
	var flags []string
	user := ""
	switch symx.Choose(3) {
	case 0: // cmd/go's usual value
		user = "/home/u/src=>example.com/m;/go=>go"
	case 1: // TMPDIR inside the source tree: a shorter prefix of the temp dir is listed too
		user = "/tmp=>T;/go=>go"
	case 2:
		user = shortText("a", 1) + "=>" + shortText("b", 1)
	}
	form := symx.Choose(3)
	switch form {
	case 0:
		flags = []string{"-p", "main", "-trimpath=" + user, "-pack"}
	case 1:
		flags = []string{"-p", "main", "-trimpath", user, "-pack"}
	case 2:
		flags = []string{"-p", "main", "-pack"} // no -trimpath at all
	}
	out := alterTrimpath(flags)
	symx.Reach("trimmed")
	v, ok := lastWins(out, "-trimpath", map[string]bool{"-p": true, "-trimpath": true})
	symx.Assert(ok, "-trimpath is passed")
	// cmd/internal/objabi.ApplyRewrites: the first matching prefix wins
	path := sharedTempDir + "/x/y.go"
	rewritten := path
	for _, rule := range strings.Split(v, ";") {
		from, to, hasTo := strings.Cut(rule, "=>")
		if !hasTo {
			from, to = rule, ""
		}
		if from != "" && (path == from || strings.HasPrefix(path, from+"/")) {
			rewritten = to + path[len(from):]
			if to == "" {
				rewritten = strings.TrimPrefix(path[len(from):], "/")
			}
			break
		}
	}
	symx.Assert(!strings.HasPrefix(rewritten, sharedTempDir), "paths below garble's temp dir do not keep it as a prefix")
	symx.Assert(!strings.Contains(rewritten, "garble-shared"), "the temp dir name does not survive trimming")
	if form != 2 {
		symx.Assert(strings.HasSuffix(v, user), "the user's rewrites are kept after garble's")
	}
}

// H_C01_ldflags_X: every -X flag is duplicated under exactly the import path
// and variable name the obfuscated build gives that variable.
func H_C01_ldflags_X() {
	symx.Stub("(*mvdan.cc/garble.transformer).processImportCfg", func(tf *transformer, flags, req []string) (string, error) {
		return "/tmp/garble-importcfg", nil
	})
	sharedCache = &sharedCacheType{ListedPackages: newListedPackages()}
	flagSeed = seedFlag{bytes: []byte("12345678")}
	mainPkg := &listedPackage{Name: "main", ImportPath: "example.com/cmd", ToObfuscate: true}
	dep := &listedPackage{Name: "dep", ImportPath: "example.com/m/dep", ToObfuscate: symx.Choose(2) == 1}
	sharedCache.ListedPackages.set(dep.ImportPath, dep)
	tf := &transformer{curPkg: mainPkg}
	name := identString("var", 1+symx.Choose(tier(1, 2)))
	// the injected value is arbitrary printable text: it may itself contain '=' or '.'
	val := symx.String("val", symx.Choose(tier(3, 4)))
	for i := 0; i < len(val); i++ {
		symx.Assume(val[i] > ' ' && val[i] < 0x7f)
	}
	target := symx.Choose(3)
	pkgPath := []string{"main", dep.ImportPath, "not/in/build"}[target]
	x := pkgPath + "." + name + "=" + val
	var args []string
	if symx.Choose(2) == 1 {
		args = []string{"-X", x}
	} else {
		args = []string{"-X=" + x}
	}
	defer symx.FSCleanup()
	args = append(args, "-importcfg", importCfgFile(), "/tmp/b001/_pkg_.a")
	out, err := tf.transformLink(args)
	symx.Reach("linked")
	symx.Assert(err == nil, "no error")
	// the original flag is still there
	orig := false
	for i, a := range out {
		if a == "-X="+x || (a == "-X" && i+1 < len(out) && out[i+1] == x) {
			orig = true
		}
	}
	symx.Assert(orig, "the user's -X flag is passed on unchanged")
	var lpkg *listedPackage
	switch target {
	case 0:
		lpkg = mainPkg
	case 1:
		lpkg = dep
	}
	dup := 0
	for _, a := range out {
		if rest, ok := strings.CutPrefix(a, "-X="); ok && rest != x && rest != "runtime.buildVersion=unknown" {
			dup++
			if lpkg != nil {
				want := lpkg.obfuscatedImportPath() + "." + hashWithPackage(lpkg, name) + "=" + val
				symx.Assert(rest == want, "the duplicate names the obfuscated package path and variable")
			}
		}
	}
	if lpkg != nil {
		symx.Assert(dup == 1, "exactly one obfuscated duplicate per -X flag")
	} else {
		symx.Assert(dup == 0, "variables of packages outside the build get no duplicate")
	}
}
