package linker

import (
	"errors"
	"os"
	"os/exec"
	"runtime"
	"strings"

	"mvdan.cc/garble/internal/symx"
)

// C18/C07 (patched-linker cache): whatever state an interrupted PatchLinker
// leaves in GARBLE_CACHE/tool, and whichever of its entries is missing, empty
// or partial, the next PatchLinker returns a complete linker built for the
// version it was asked for.
//
// Engine: the real PatchLinker runs against the file-system model with a
// crash point after an arbitrary number of mutations; `go build` is a stub
// that writes its output the way cmd/go does (create, then append in pieces),
// `git apply`, the patch loader and the lock are stubs. Natively the real
// PatchLinker runs with a fake GOROOT whose bin/go writes the same marker
// contents and fails at the corresponding point.

const c18Partial = "LINK("

func c18Full(goVersion string) string { return c18Partial + goVersion + ")" }

var errKilled = errors.New("killed")

// c18Killed is the panic value that stands for the death of the process tree;
// c18Stop names the point of the interrupted build at which it happens.
const c18Killed = "symx: process killed"

var c18Stop string

var c18Version string // what the modelled `go build` is building

func c18Stubs() {
	symx.Stub("mvdan.cc/garble/internal/linker.loadLinkerPatches", func(major string) (string, map[string]bool, [][]byte, error) {
		return "PATCHES", map[string]bool{"cmd/link/internal/ld/data.go": true}, [][]byte{[]byte("patch")}, nil
	})
	symx.Stub("mvdan.cc/garble/internal/linker.applyPatches", func(srcDir, workingDir string, modFiles map[string]bool, patches [][]byte) (map[string]string, error) {
		// like copyFile: the patched copies live under workingDir
		if err := os.MkdirAll(workingDir+"/cmd/link/internal/ld", 0o777); err != nil {
			return nil, err
		}
		return map[string]string{srcDir + "/cmd/link/internal/ld/data.go": workingDir + "/cmd/link/internal/ld/data.go"}, nil
	})
	symx.Stub("(*github.com/rogpeppe/go-internal/lockedfile.Mutex).Lock", func(mu any) (func(), error) {
		return func() {}, nil
	})
	symx.Stub("encoding/json.Marshal", func(v any) ([]byte, error) { return []byte("{}"), nil })
	symx.Stub("os/exec.Command", func(name string, arg ...string) *exec.Cmd {
		return &exec.Cmd{Path: name, Args: append([]string{name}, arg...)}
	})
	symx.Stub("(*os/exec.Cmd).Environ", func(c *exec.Cmd) []string { return nil })
	symx.Stub("(*os/exec.Cmd).CombinedOutput", func(c *exec.Cmd) ([]byte, error) {
		// go build -overlay f -o OUT cmd/link: cmd/go creates OUT and copies the
		// binary into it in several writes; c18Stop says where the process tree dies
		out := ""
		for i, a := range c.Args {
			if a == "-o" && i+1 < len(c.Args) {
				out = c.Args[i+1]
			}
		}
		if c18Stop == "before" {
			panic(c18Killed)
		}
		f, err := os.Create(out)
		if err != nil {
			return []byte(err.Error()), err
		}
		if c18Stop == "created" {
			panic(c18Killed)
		}
		f.WriteString(c18Partial)
		if c18Stop == "partial" {
			panic(c18Killed)
		}
		f.WriteString(c18Version + ")")
		f.Close()
		switch c18Stop {
		case "written":
			panic(c18Killed)
		case "stamp-empty":
			symx.FSCrashAfter(1) // the stamp is created, its content never written
		}
		return nil, nil
	})
}

// c18FakeGoroot (native) makes a GOROOT whose sources are the real ones (the
// patches are applied to them by the real git) and whose go command writes the
// marker contents, stopping where $C18_STOP says.
func c18FakeGoroot(root string) string {
	goroot := root + "/goroot"
	symx.FSMkdir(goroot + "/bin")
	os.Symlink(runtime.GOROOT()+"/src", goroot+"/src")
	script := `#!/bin/sh
out=
while [ $# -gt 0 ]; do
	if [ "$1" = "-o" ]; then out=$2; fi
	shift
done
case "$C18_STOP" in
before) exit 1 ;;
created) : > "$out"; exit 1 ;;
partial) printf '%s' 'LINK(' > "$out"; exit 1 ;;
written|stamp-empty) printf '%s' "LINK($C18_VERSION)" > "$out"; exit 1 ;;
esac
printf '%s' "LINK($C18_VERSION)" > "$out"
`
	symx.FSWriteFile(goroot+"/bin/go", script)
	os.Chmod(goroot+"/bin/go", 0o755)
	return goroot
}

func c18Run(goroot, goVersion, cache, tmp string) (path string, err error) {
	c18Version = goVersion
	os.Setenv("C18_VERSION", goVersion)
	symx.FSMkdir(tmp)
	defer func() {
		if r := recover(); r != nil {
			if s, ok := r.(string); ok && s == c18Killed {
				path, err = "", errKilled // the process is gone; nothing is returned to anyone
				return
			}
			panic(r)
		}
	}()
	p, unlock, err := PatchLinker(goroot, goVersion, cache, tmp)
	if err == nil && unlock != nil {
		unlock()
	}
	return p, err
}

func H_C18_linker_cache() {
	root := symx.FSRoot()
	defer symx.FSCleanup()
	cache, goroot := root+"/cache", root+"/goroot"
	versions := []string{"go1.26.1", "go1.26.2"}
	v1 := versions[symx.Choose(2)] // the build that is interrupted
	v2 := versions[symx.Choose(2)] // the build that follows
	if symx.Symbolic() {
		c18Stubs()
	} else {
		goroot = c18FakeGoroot(root)
	}
	linkPath := cache + "/tool/link"
	if runtime.GOOS == "windows" {
		linkPath += ".exe"
	}

	// the cache before the interrupted build: empty, or left by an earlier
	// complete build of either version, possibly with an entry lost since
	switch symx.Choose(5) {
	case 0: // empty
	case 1, 2, 3, 4:
		v0 := versions[symx.Choose(2)]
		os.Unsetenv("C18_STOP")
		if _, err := c18Run(goroot, v0, cache, root+"/tmp0"); err != nil {
			symx.Fail("an undisturbed build of the linker failed: " + err.Error())
			return
		}
		switch symx.Choose(3) {
		case 1: // the linker was deleted, its stamp stayed
			os.Remove(linkPath)
		case 2: // the stamp was deleted
			os.Remove(linkPath + versionExt)
		}
	}
	symx.Reach("prepared")

	// the interrupted build. Natively nothing can be killed: the fake go
	// command fails at the same point instead, which leaves the same files
	// (an empty stamp cannot be produced that way and is left to the engine).
	c18Stop = []string{"start", "before", "created", "partial", "written", "stamp-empty", "none"}[symx.Choose(7)]
	os.Setenv("C18_STOP", c18Stop)
	if c18Stop == "start" {
		symx.FSCrashAfter(0)
	}
	if c18Stop != "start" || symx.Symbolic() {
		c18Run(goroot, v1, cache, root+"/tmp1")
	}
	symx.FSCrashAfter(-1)
	c18Stop = ""
	os.Unsetenv("C18_STOP")
	symx.Reach("interrupted")

	// the next build
	got, err := c18Run(goroot, v2, cache, root+"/tmp2")
	if err != nil {
		symx.Fail("the build after an interrupted one fails: " + err.Error())
		return
	}
	content, ok := symx.FSReadFile(got)
	symx.Assert(ok, "the linker that PatchLinker returns exists")
	symx.Assert(content == c18Full(v2), "the linker that PatchLinker returns is a complete build for the requested version: "+strings.TrimSpace(v2))
	symx.Reach("rebuilt")
}
