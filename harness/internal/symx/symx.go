// Package symx is the harness-side API of the gosx symbolic executor.
//
// Under gosx every function below is intercepted by the engine (its body is
// never executed). Compiled natively (go test -overlay) the bodies replay a
// recorded counterexample or witness: inputs come from the JSON file named by
// GOSX_REPLAY, random draws from a scripted math/rand source.
package symx

import (
	"crypto/sha256"
	"encoding/json"
	"fmt"
	"math/rand"
	"os"
	"path/filepath"
	"strconv"
	"strings"
)

type inputRec struct {
	Name string
	Kind string
	Val  []uint64
}

type drawRec struct {
	Method string
	Global bool
	Arg    uint64
	Val    []uint64
}

type replayFile struct {
	Harness  string
	Msg      string
	Inputs   []inputRec
	Draws    []drawRec
	Observed []string
}

var (
	loaded   bool
	rp       replayFile
	nextIn   int
	Failures []string
	Observed []string
	Reached  = map[string]bool{}
)

func load() {
	if loaded {
		return
	}
	loaded = true
	path := os.Getenv("GOSX_REPLAY")
	if path == "" {
		return
	}
	data, err := os.ReadFile(path)
	if err != nil {
		panic(err)
	}
	if err := json.Unmarshal(data, &rp); err != nil {
		panic(err)
	}
}

// Reset restarts input consumption (one harness per process is the norm).
func Reset() { loaded = false; nextIn = 0; Failures = nil; Observed = nil; load() }

// ReplayHarness is the name of the harness the replay file belongs to.
func ReplayHarness() string { load(); return rp.Harness }

func next(kind string) inputRec {
	load()
	for nextIn < len(rp.Inputs) {
		in := rp.Inputs[nextIn]
		nextIn++
		if in.Kind == "choose" && kind != "choose" {
			continue // map-order choices made by the engine only
		}
		if in.Kind != kind {
			panic(fmt.Sprintf("symx replay: want input of kind %s, file has %s (%s)", kind, in.Kind, in.Name))
		}
		return in
	}
	// beyond the recorded inputs: zero values
	return inputRec{Kind: kind}
}

func scalar(kind string) uint64 {
	in := next(kind)
	if len(in.Val) == 0 {
		return 0
	}
	return in.Val[0]
}

func Byte(name string) byte     { return byte(scalar("byte")) }
func Int(name string) int       { return int(scalar("int")) }
func Int32(name string) int32   { return int32(scalar("int32")) }
func Uint16(name string) uint16 { return uint16(scalar("uint16")) }
func Uint32(name string) uint32 { return uint32(scalar("uint32")) }
func Uint64(name string) uint64 { return scalar("uint64") }
func Bool(name string) bool     { return scalar("bool") != 0 }

func Bytes(name string, n int) []byte {
	in := next("bytes")
	b := make([]byte, n)
	for i := range b {
		if i < len(in.Val) {
			b[i] = byte(in.Val[i])
		}
	}
	return b
}

func String(name string, n int) string {
	in := next("string")
	b := make([]byte, n)
	for i := range b {
		if i < len(in.Val) {
			b[i] = byte(in.Val[i])
		}
	}
	return string(b)
}

// Choose returns a value in [0,n); the engine explores all of them.
func Choose(n int) int {
	if n <= 1 {
		return 0
	}
	return int(scalar("choose")) % n
}

type assumeFailed struct{}

// Assume restricts the inputs considered. Natively a false assumption means
// the replay file does not belong to this harness version.
func Assume(c bool) {
	if !c {
		panic(assumeFailed{})
	}
}

// Assert states the property.
func Assert(c bool, msg string) {
	if !c {
		Failures = append(Failures, "assertion failed: "+msg)
	}
}

func Fail(msg string) { Failures = append(Failures, "failure: "+msg) }

// Unsupported ends the path as inconclusive: the harness met something its
// oracle does not model. It is reported, never counted as a violation.
func Unsupported(msg string) { UnsupportedMsgs = append(UnsupportedMsgs, msg) }

var UnsupportedMsgs []string

func Reach(tag string) { Reached[tag] = true }
func Note(msg string)  {}

// Stub replaces the named function by fn under the engine. Natively the real
// function runs.
func Stub(name string, fn any) {}
func Unstub(name string)       {}

// Thorough reports whether the thorough tier is running (GOSX_TIER=thorough).
func Thorough() bool { return os.Getenv("GOSX_TIER") == "thorough" }

// DrawPolicy installs a bound on bounded random draws: for a draw method(n)
// the engine assumes result < f(method, n) when f returns a positive value.
// Every bound in force is reported in the evidence. Natively a no-op.
func DrawPolicy(f func(method string, n int) int) {}

// RewindDraws makes the seeded draws (not the process-global ones) repeat
// from the start, for 2-safety harnesses that run the same code twice.
// Natively: obtain a new generator with Rand(), which restarts the script.
func RewindDraws() {}

// ForkSmallTables makes the engine case-split lookups with a symbolic index
// into constant tables of at most 4 entries instead of building an ite.
func ForkSmallTables(on bool) {}

// Symbolic reports whether the code runs under the engine.
func Symbolic() bool { return false }

// IsConcrete reports whether v holds no symbolic data.
func IsConcrete(v any) bool { return true }

// MapOrder switches symbolic map iteration order in garble code on or off.
func MapOrder(on bool) {}

// MapOrderOpts refines MapOrder: maps with fewer than minLen live entries keep
// insertion order; all permutations are explored up to fullUpTo entries
// (identity, reversal and rotations above); with sticky a map object keeps the
// order drawn for it as long as its size is unchanged. Zeroes = defaults (2, 3).
// fullUpTo < 0: one perturbation per path (identity, reversal or rotation by one)
// applied to every map range.
func MapOrderOpts(minLen, fullUpTo int, sticky bool) {}

// Observe records values for the differential (engine vs native) check.
func Observe(tag string, vals ...any) {
	var sb strings.Builder
	sb.WriteString(tag)
	for _, v := range vals {
		sb.WriteByte(' ')
		render(&sb, v)
	}
	Observed = append(Observed, sb.String())
}

func render(sb *strings.Builder, v any) {
	switch v := v.(type) {
	case string:
		fmt.Fprintf(sb, "%q", []byte(v))
	case []byte:
		sb.WriteByte('[')
		for i, e := range v {
			if i > 0 {
				sb.WriteByte(' ')
			}
			fmt.Fprintf(sb, "%v", e)
		}
		sb.WriteByte(']')
	case []string:
		sb.WriteByte('[')
		for i, e := range v {
			if i > 0 {
				sb.WriteByte(' ')
			}
			fmt.Fprintf(sb, "%q", []byte(e))
		}
		sb.WriteByte(']')
	case []int:
		sb.WriteByte('[')
		for i, e := range v {
			if i > 0 {
				sb.WriteByte(' ')
			}
			fmt.Fprintf(sb, "%v", e)
		}
		sb.WriteByte(']')
	default:
		fmt.Fprintf(sb, "%v", v)
	}
}

// IntOfLit returns the value of a symbolic integer literal marker (engine
// only); natively literals are ordinary text and ok is false.
// signed reports whether the literal came from a signed Go value (so v is a
// two's complement int64) rather than an unsigned magnitude.
func IntOfLit(text string) (v uint64, signed, ok bool) { return 0, false, false }

// BytesOfLit is the string-literal counterpart of IntOfLit.
func BytesOfLit(text string) ([]byte, bool) { return nil, false }

// Digest is sha256, uninterpreted and collision-free on symbolic input.
func Digest(data []byte) [32]byte { return sha256.Sum256(data) }

// DigestPrefixFree strengthens the engine's sha256 model: different inputs
// differ within the first n digest bytes (n 0 switches it off). No effect natively.
func DigestPrefixFree(n int) {}

// DigestClass makes the engine assume that byte idx of every symbolic sha256
// digest is rem modulo mod (mod 0 switches it off). Harnesses use it to stay
// within one class of hashed-name lengths. No effect natively.
func DigestClass(idx, mod, rem int) {}

// Concretize forks the engine over all values of v.
func Concretize(v int) int { return v }

// And and Or are the non-short-circuit boolean operators (no fork).
func And(a, b bool) bool { return a && b }
func Or(a, b bool) bool  { return a || b }

// Ite is c ? a : b without a fork.
func Ite(c bool, a, b int) int {
	if c {
		return a
	}
	return b
}

// ---------------------------------------------------------------------------
// file system: under the engine an in-memory model, natively the real one
// below a scratch root.

var fsRoot string

// FSRoot is the directory below which a harness places its files.
func FSRoot() string {
	if fsRoot == "" {
		d, err := os.MkdirTemp("", "gosx-fsroot")
		if err != nil {
			panic(err)
		}
		fsRoot = d
	}
	return fsRoot
}

// FSCleanup removes the native scratch root (no-op under the engine).
func FSCleanup() {
	if fsRoot != "" {
		os.RemoveAll(fsRoot)
		fsRoot = ""
	}
}

// FSCrashAfter arms a crash point in the engine's file-system model: after n
// more mutations the next mutating call does not happen and the "process" dies
// with a panic that the harness recovers (n < 0 disarms). No effect natively.
func FSCrashAfter(n int) {}

func FSMkdir(path string) {
	if err := os.MkdirAll(path, 0o755); err != nil {
		panic(err)
	}
}

func FSWriteFile(path, content string) {
	FSMkdir(filepath.Dir(path))
	if err := os.WriteFile(path, []byte(content), 0o644); err != nil {
		panic(err)
	}
}

func FSExists(path string) bool {
	_, err := os.Lstat(path)
	return err == nil
}

func FSReadFile(path string) (string, bool) {
	b, err := os.ReadFile(path)
	return string(b), err == nil
}

// FSList lists everything below prefix (sorted absolute paths).
func FSList(prefix string) []string {
	var out []string
	filepath.Walk(prefix, func(p string, info os.FileInfo, err error) error {
		if err == nil && p != prefix {
			out = append(out, p)
		}
		return nil
	})
	return out
}

func Setenv(k, v string) { os.Setenv(k, v) }

// ---------------------------------------------------------------------------
// scripted random source

type scripted struct {
	vals []uint64 // raw 63-bit outputs still to deliver
	fall *rand.Rand
}

func (s *scripted) Seed(int64) {}
func (s *scripted) Int63() int64 {
	if len(s.vals) > 0 {
		v := s.vals[0]
		s.vals = s.vals[1:]
		return int64(v & (1<<63 - 1))
	}
	return s.fall.Int63()
}
func (s *scripted) Uint64() uint64 {
	if len(s.vals) > 0 {
		v := s.vals[0]
		s.vals = s.vals[1:]
		return v
	}
	return s.fall.Uint64()
}

// rawFor computes the raw source outputs that make the real math/rand
// methods return the recorded draw.
func rawFor(d drawRec) []uint64 {
	v := uint64(0)
	if len(d.Val) > 0 {
		v = d.Val[0]
	}
	switch d.Method {
	case "Int63", "Int":
		return []uint64{v}
	case "Uint64":
		return []uint64{v}
	case "Uint32":
		return []uint64{v << 31}
	case "Int31":
		return []uint64{v << 32}
	case "Intn", "Int31n":
		if d.Arg <= 1<<31-1 {
			return []uint64{v << 32} // Int31n: Int31() % n or & (n-1); v < n <= max
		}
		return []uint64{v}
	case "Int63n":
		return []uint64{v}
	case "Float32":
		return []uint64{v << 32} // Float32 = float32(Int31n(1<<24)) / (1<<24)
	case "Perm":
		// invert m[i] = m[j]; m[j] = i to obtain the Intn(i+1) draws
		m := append([]uint64(nil), d.Val...)
		js := make([]uint64, len(m))
		for i := len(m) - 1; i >= 0; i-- {
			j := 0
			for k := range m {
				if m[k] == uint64(i) {
					j = k
				}
			}
			js[i] = uint64(j)
			m[j] = m[i]
		}
		out := make([]uint64, len(js))
		for i, j := range js {
			out[i] = j << 32
		}
		return out
	case "int31n":
		// Lemire: result = (uint64(u32)*n)>>32 with low part >= n%... ; search u32
		n := d.Arg
		if n == 0 {
			return []uint64{0}
		}
		u := (v<<32 + n - 1) / n
		for ; u < 1<<32; u++ {
			prod := u * n
			if prod>>32 != v {
				break
			}
			low := uint32(prod)
			if low >= uint32(n) || low >= uint32(-int32(n))%uint32(n) {
				return []uint64{u << 31}
			}
		}
		return []uint64{((v<<32 + n - 1) / n) << 31}
	}
	panic("symx replay: unknown draw method " + d.Method)
}

// Rand returns the generator to hand to the code under test. Under the engine
// its methods are intercepted; natively it replays the recorded draws and
// continues pseudo-randomly afterwards.
func Rand() *rand.Rand {
	load()
	s := &scripted{fall: rand.New(rand.NewSource(fallbackSeed()))}
	// (*Rand).Read consumes 7 bytes per Int63 and keeps the unused bytes of
	// the last word for the next Read call.
	readWord, fill := -1, 7
	for _, d := range rp.Draws {
		if d.Global {
			continue
		}
		if d.Method == "Read" {
			for _, b := range d.Val {
				if fill == 7 {
					s.vals = append(s.vals, 0)
					readWord, fill = len(s.vals)-1, 0
				}
				s.vals[readWord] |= (b & 0xff) << (8 * uint(fill))
				fill++
			}
			continue
		}
		s.vals = append(s.vals, rawFor(d)...)
	}
	return rand.New(s)
}

func fallbackSeed() int64 {
	n, _ := strconv.ParseInt(os.Getenv("GOSX_FALLBACK_SEED"), 10, 64)
	return n + 1
}

// Finish is called by the native test driver after the harness returned.
func Finish() (failures, observed []string) { return Failures, Observed }
