package ctrlflow

import (
	"go/ast"
	"go/constant"
	"go/token"
	mathrand "math/rand"

	"golang.org/x/tools/go/ssa"

	"mvdan.cc/garble/internal/symx"
	ev "mvdan.cc/garble/internal/symxeval"
)

// C11: control-flow obfuscation preserves behaviour. The kernels decided here
// are the dispatcher keys after hardening, the always-false guard of trash
// blocks, and the directive parameters.

func tier(quick, thorough int) int {
	if symx.Thorough() {
		return thorough
	}
	return quick
}

// keyBudget allows the Int31 draws the algorithm needs plus `retries`
// rejections in generateKeys, and fixes the process-global draws (key sizes,
// reported separately under C03) to their minimum.
func keyBudget(needed, retries int) func(string, int) int {
	n := 0
	return func(method string, arg int) int {
		switch method {
		case "Int31":
			n++
			if n > needed+retries {
				return -1
			}
		case "global.Intn":
			return 1
		case "Intn":
			if arg == 8 { // literals.MinSize: the key size draw; fixed to its minimum (its determinism is C03's subject)
				return 1
			}
		}
		return 0
	}
}

func report(e *ev.Evaluator) { e.Report() }

var nameCounter int

// freshName replaces getRandomName (a 64-bit draw rendered in base 32): names
// only need to be distinct, and are distinct for distinct draws.
func freshName(rnd *mathrand.Rand) string {
	rnd.Uint64() // the real function consumes one draw: keep the native replay's draw sequence aligned
	nameCounter++
	return "_garble" + string(rune('a'+nameCounter))
}

func checkHardening(h dispatcherHardening, needed func(n int) int) {
	nameCounter = 0
	symx.Stub("mvdan.cc/garble/internal/ctrlflow.getRandomName", freshName)
	n := 1 + symx.Choose(tier(3, 5))
	disp := make([]cfgInfo, n)
	for i := range disp {
		disp[i] = cfgInfo{CompareVar: makeSsaInt(i + 1), StoreVar: makeSsaInt(i + 1)}
	}
	remap := map[ssa.Value]ast.Expr{}
	symx.DrawPolicy(keyBudget(needed(n), 1))
	decl, stmt := h.Apply(disp, remap, symx.Rand())
	symx.DrawPolicy(nil)
	symx.Reach("hardened")
	e := ev.New()
	e.Protect(func() {
		genv := ev.NewEnv(nil)
		e.Decl(genv, decl.(*ast.GenDecl))
		fenv := ev.NewEnv(genv)
		if stmt != nil {
			e.Exec(fenv, stmt)
		}
		store := make([]uint64, n)
		cmp := make([]uint64, n)
		for i := range disp {
			s, ok1 := e.Eval(fenv, remap[disp[i].StoreVar]).(ev.Int)
			c, ok2 := e.Eval(fenv, remap[disp[i].CompareVar]).(ev.Int)
			symx.Assert(ok1 && ok2, "store and compare expressions are integers")
			if !ok1 || !ok2 {
				return
			}
			symx.Assert(s.K == ev.KInt || s.K == ev.KUntyped, "store expression is an int")
			store[i], cmp[i] = s.V, c.V
		}
		for i := range disp {
			symx.Assert(store[i] == cmp[i], "a stored key selects its own block")
			symx.Assert(cmp[i] != 0, "no key equals the phi's zero value (function entry)")
			for j := range disp {
				if i != j {
					symx.Assert(store[i] != cmp[j], "a stored key selects no other block")
				}
			}
		}
	})
	report(e)
}

// H_C11_xor_keys: xorHardening.Apply.
func H_C11_xor_keys() {
	checkHardening(xorHardening{}, func(n int) int { return 1 + n })
}

// H_C11_delegate_keys: delegateTableHardening.Apply.
func H_C11_delegate_keys() {
	checkHardening(delegateTableHardening{}, func(n int) int { return min(8, n) + n })
}

// H_C11_always_false: the guard in front of every trash block is false for
// all draws, and a candidate operator always exists.
func H_C11_always_false() {
	v1, op, v2 := randomAlwaysFalseCond(symx.Rand())
	symx.Reach("cond")
	a, _ := constant.Int64Val(v1.Value)
	b, _ := constant.Int64Val(v2.Value)
	var res bool
	switch op {
	case token.EQL:
		res = a == b
	case token.NEQ:
		res = a != b
	case token.LSS:
		res = a < b
	case token.LEQ:
		res = a <= b
	case token.GTR:
		res = a > b
	case token.GEQ:
		res = a >= b
	default:
		symx.Fail("unexpected operator")
	}
	symx.Assert(!res, "the trash-block guard is always false")
}

// H_C11_directive_int: integer directive parameters are bounded by their maximum.
func H_C11_directive_int() {
	raw := symx.String("v", 1+symx.Choose(tier(3, 4)))
	for i := 0; i < len(raw); i++ {
		symx.Assume(raw[i] > ' ' && raw[i] != '=' && raw[i] < 0x7f)
	}
	maxes := []int{maxJunkJumps, maxFlattenPasses, maxTrashBlocks}
	max := maxes[symx.Choose(len(maxes))]
	m, ok := parseDirective(directiveName + " p=" + raw)
	symx.Reach("parsed")
	symx.Assert(ok && m != nil, "directive recognised")
	val, err := m.GetInt("p", 1, max)
	if err == nil {
		symx.Assert(val <= max, "accepted values never exceed the maximum")
		if raw == "max" {
			symx.Assert(val == max, "max keyword")
		}
	}
	def, err2 := m.GetInt("absent", 7, max)
	symx.Assert(err2 == nil && def == 7, "absent parameters take the default")
}

var _ = mathrand.Int
