package ctrlflow

import (
	"bytes"
	"errors"
	"go/ast"
	"go/parser"
	"go/printer"
	"go/token"
	"go/types"
	"sort"

	"golang.org/x/tools/go/ssa"

	"mvdan.cc/garble/internal/symx"
	ev "mvdan.cc/garble/internal/symxeval"
)

// C03 (2-safety): the same code on the same inputs and the same seeded draw
// sequence must emit the same tree, whatever the process-global random source
// returns.

func render(nodes ...any) string {
	var buf bytes.Buffer
	fset := token.NewFileSet()
	for _, n := range nodes {
		if n == nil || n == ast.Stmt(nil) || n == ast.Decl(nil) {
			buf.WriteString("<nil>\n")
			continue
		}
		if err := printer.Fprint(&buf, fset, n); err != nil {
			buf.WriteString("<print error: " + err.Error() + ">")
		}
		buf.WriteString("\n")
	}
	return buf.String()
}

func applyOnce(h dispatcherHardening, n int, needed int) string {
	nameCounter = 0
	disp := make([]cfgInfo, n)
	for i := range disp {
		disp[i] = cfgInfo{CompareVar: makeSsaInt(i + 1), StoreVar: makeSsaInt(i + 1)}
	}
	remap := map[ssa.Value]ast.Expr{}
	budget := 0
	symx.DrawPolicy(func(method string, arg int) int {
		if method == "Int31" {
			budget++
			if budget > needed {
				return -1 // no rejected keys: both runs draw the same number of keys
			}
		}
		return 0
	})
	decl, stmt := h.Apply(disp, remap, symx.Rand())
	symx.DrawPolicy(nil)
	nodes := []any{decl}
	if stmt != nil {
		nodes = append(nodes, stmt)
	}
	var keys []int
	byKey := map[int]ast.Expr{}
	for i, d := range disp {
		byKey[2*i] = remap[d.StoreVar]
		byKey[2*i+1] = remap[d.CompareVar]
		keys = append(keys, 2*i, 2*i+1)
	}
	sort.Ints(keys)
	for _, k := range keys {
		nodes = append(nodes, byKey[k])
	}
	return render(nodes...)
}

// H_C03_hardening_deterministic: both hardenings emit the same code when run
// twice with the same seeded draws.
func H_C03_hardening_deterministic() {
	symx.Stub("mvdan.cc/garble/internal/ctrlflow.getRandomName", freshName)
	var h dispatcherHardening = xorHardening{}
	needed := func(n int) int { return 1 + n }
	if symx.Choose(2) == 1 {
		h = delegateTableHardening{}
		needed = func(n int) int { return min(8, n) + n }
	}
	n := 1 + symx.Choose(2)
	out1 := applyOnce(h, n, needed(n))
	symx.RewindDraws()
	out2 := applyOnce(h, n, needed(n))
	symx.Reach("twice")
	symx.Assert(ev.SameText(out1, out2), "the emitted hardening code depends only on the seeded random source")
}

// H_C03_hardening_choice: the list of hardenings a directive names is built in
// the order it names them, whatever order Go iterates maps in.
func H_C03_hardening_choice() {
	symx.MapOrder(true)
	names := [][]string{{"xor", "delegate_table"}, {"delegate_table", "xor"}, {"xor"}}[symx.Choose(3)]
	kind := func(h dispatcherHardening) string {
		switch h := h.(type) {
		case xorHardening:
			return "xor"
		case delegateTableHardening:
			return "delegate_table"
		case multiHardening:
			s := "multi:"
			for _, e := range h {
				if _, ok := e.(xorHardening); ok {
					s += "x"
				} else {
					s += "d"
				}
			}
			return s
		}
		return "?"
	}
	k1 := kind(newDispatcherHardening(names))
	k2 := kind(newDispatcherHardening(names))
	symx.MapOrder(false)
	if !symx.Symbolic() {
		// natively the iteration order cannot be chosen: repeat until it shows
		for i := 0; i < 60 && k1 == k2; i++ {
			k2 = kind(newDispatcherHardening(names))
		}
	}
	symx.Reach("twice")
	symx.Assert(k1 == k2, "the hardening list does not depend on map iteration order")
	want := names[0]
	if len(names) == 2 {
		want = "multi:xd"
		if names[0] == "delegate_table" {
			want = "multi:dx"
		}
	}
	symx.Assert(k1 == want, "hardenings are listed in directive order")
}

// H_C03_ctrlflow_deterministic: the whole control-flow pipeline (go/ssa builder,
// Obfuscate, ssa2ast.Convert) run twice on the same function with the same
// seeded draws emits the same file, whatever order Go iterates garble's maps in
// during the second run (every order of maps of up to three entries, identity,
// reversal and rotations above).
func H_C03_ctrlflow_deterministic() {
	symx.Stub("mvdan.cc/garble/internal/ctrlflow.getRandomName", freshName)
	var set []tvSample
	for _, s := range tvSamples {
		for _, n := range c03Samples {
			if s.Name == n {
				set = append(set, s)
			}
		}
	}
	s := set[symx.Choose(len(set))]
	params := []string{"flatten_passes=1", "flatten_passes=0", "flatten_passes=1 block_splits=1 junk_jumps=1"}[symx.Choose(tier(2, 2))]
	src := "package p\n\n//garble:controlflow " + params + "\n" + s.Src + "\n"
	once := func() string {
		nameCounter = 0
		symx.DrawPolicy(tvPolicy(0, false))
		file, fset := tvBuild(src)
		symx.DrawPolicy(nil)
		if file == nil {
			return ""
		}
		return tvPrint(fset, file)
	}
	out1 := once()
	symx.RewindDraws()
	symx.MapOrder(true)
	out2 := once()
	symx.MapOrder(false)
	if !symx.Symbolic() {
		// natively the iteration order cannot be chosen: repeat until it shows
		for i := 0; i < 60 && out1 == out2; i++ {
			out2 = once()
		}
	}
	if out1 == "" || out2 == "" {
		return
	}
	symx.Reach("twice")
	if !ev.SameText(out1, out2) {
		symx.Fail("the emitted function depends on map iteration order (" + s.Name + " [" + params + "]):\n--- first run\n" + out1 + "\n--- second run\n" + out2)
	}
}

// samples whose converted form declares variables of more than one type
var c03Samples = []string{"swap", "collatz", "conv", "bits"}

// --- trash blocks -----------------------------------------------------------

const c03LibSrc = `package lib

var Counter int

var Name string

func Add(a, b int) int { return a + b }

func Join(a, b string) string { return a + b }

func Flag(b bool) bool { return !b }
`

type c03Importer struct{ lib *types.Package }

func (i c03Importer) Import(path string) (*types.Package, error) {
	if path == "example.com/lib" {
		return i.lib, nil
	}
	return nil, errors.New("no such package")
}

// c03BuildWithLib is tvBuild for a file that imports example.com/lib (what the
// trash generator takes its callees and globals from), set up like ssaBuildPkg.
func c03BuildWithLib(src string) (*ast.File, *token.FileSet) {
	fset := token.NewFileSet()
	newInfo := func() *types.Info {
		return &types.Info{
			Types:      map[ast.Expr]types.TypeAndValue{},
			Defs:       map[*ast.Ident]types.Object{},
			Uses:       map[*ast.Ident]types.Object{},
			Instances:  map[*ast.Ident]types.Instance{},
			Implicits:  map[ast.Node]types.Object{},
			Scopes:     map[ast.Node]*types.Scope{},
			Selections: map[*ast.SelectorExpr]*types.Selection{},
		}
	}
	libFile, err := parser.ParseFile(fset, "lib.go", c03LibSrc, parser.SkipObjectResolution)
	if err != nil {
		symx.Fail("parse lib: " + err.Error())
		return nil, nil
	}
	libPkg, err := (&types.Config{}).Check("example.com/lib", fset, []*ast.File{libFile}, newInfo())
	if err != nil {
		symx.Fail("typecheck lib: " + err.Error())
		return nil, nil
	}
	file, err := parser.ParseFile(fset, "p.go", src, parser.SkipObjectResolution|parser.ParseComments)
	if err != nil {
		symx.Fail("parse: " + err.Error())
		return nil, nil
	}
	info := newInfo()
	pkg, err := (&types.Config{Importer: c03Importer{libPkg}}).Check("p", fset, []*ast.File{file}, info)
	if err != nil {
		symx.Fail("typecheck: " + err.Error())
		return nil, nil
	}
	prog := ssa.NewProgram(fset, 0)
	for _, p := range pkg.Imports() {
		prog.CreatePackage(p, nil, nil, true)
	}
	ssaPkg := prog.CreatePackage(pkg, []*ast.File{file}, info, false)
	ssaPkg.Build()
	_, newFile, _, err := Obfuscate(fset, ssaPkg, []*ast.File{file}, symx.Rand())
	if err != nil {
		symx.Fail("Obfuscate: " + err.Error())
		return nil, nil
	}
	return newFile, fset
}

// H_C03_trash_deterministic: a function with trash blocks, obfuscated twice
// with the same seeded draws, is the same code whatever order maps iterate in.
func H_C03_trash_deterministic() {
	symx.Stub("mvdan.cc/garble/internal/ctrlflow.getRandomName", freshName)
	src := `package p

import "example.com/lib"

var _ = lib.Add

//garble:controlflow flatten_passes=1 trash_blocks=1
func pick(a int, s string, b bool) int {
	if b {
		return a + len(s)
	}
	return a - 1
}
`
	once := func() string {
		nameCounter = 0
		symx.DrawPolicy(tvPolicy(0, false))
		file, fset := c03BuildWithLib(src)
		symx.DrawPolicy(nil)
		if file == nil {
			return ""
		}
		return tvPrint(fset, file)
	}
	out1 := once()
	symx.RewindDraws()
	symx.MapOrder(true)
	// one perturbation per path applied to every map range of the second run: identity, reversal
	// or rotation by one (the product over all ranges of the generator is not explorable)
	symx.MapOrderOpts(2, -1, false)
	out2 := once()
	symx.MapOrder(false)
	symx.MapOrderOpts(0, 0, false)
	if !symx.Symbolic() {
		for i := 0; i < 60 && out1 == out2; i++ {
			out2 = once()
		}
	}
	if out1 == "" || out2 == "" {
		return
	}
	symx.Reach("twice")
	if !ev.SameText(out1, out2) {
		symx.Fail("the emitted trash blocks depend on map iteration order:\n--- first run\n" + out1 + "\n--- second run\n" + out2)
	}
}
