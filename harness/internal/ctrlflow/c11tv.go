package ctrlflow

import (
	"go/ast"
	"go/parser"
	"go/printer"
	"go/token"
	"go/types"
	"strings"

	"golang.org/x/tools/go/ssa"

	"mvdan.cc/garble/internal/symx"
	ev "mvdan.cc/garble/internal/symxeval"
)

// C11 translation validation. The sample functions below exist twice: as Go
// source text that is parsed, type-checked, turned into SSA by the real
// go/ssa builder, rewritten by the real ctrlflow.Obfuscate (block splitting,
// junk jumps, flattening, hardening, trash blocks; every random draw a solver
// variable or a forked choice) and converted back to syntax by the real
// ssa2ast.Convert -- all inside the engine -- and as ordinary functions of this
// file (generated from the same text by gen.py, see tvOriginals). The emitted
// syntax tree is evaluated by symxeval on symbolic arguments; results and
// panics must equal those of the ordinary function on the same arguments.

// tvBuild parses and type-checks src, builds SSA and runs Obfuscate on it.
func tvBuild(src string) (*ast.File, *token.FileSet) {
	fset := token.NewFileSet()
	file, err := parser.ParseFile(fset, "p.go", src, parser.SkipObjectResolution|parser.ParseComments)
	if err != nil {
		symx.Fail("parse: " + err.Error())
		return nil, nil
	}
	info := &types.Info{
		Types:      map[ast.Expr]types.TypeAndValue{},
		Defs:       map[*ast.Ident]types.Object{},
		Uses:       map[*ast.Ident]types.Object{},
		Instances:  map[*ast.Ident]types.Instance{},
		Implicits:  map[ast.Node]types.Object{},
		Scopes:     map[ast.Node]*types.Scope{},
		Selections: map[*ast.SelectorExpr]*types.Selection{},
	}
	pkg, err := (&types.Config{}).Check("p", fset, []*ast.File{file}, info)
	if err != nil {
		symx.Fail("typecheck: " + err.Error())
		return nil, nil
	}
	// like ssaBuildPkg in the main package
	prog := ssa.NewProgram(fset, 0)
	ssaPkg := prog.CreatePackage(pkg, []*ast.File{file}, info, false)
	ssaPkg.Build()
	_, newFile, _, err := Obfuscate(fset, ssaPkg, []*ast.File{file}, symx.Rand())
	if err != nil {
		symx.Fail("Obfuscate: " + err.Error())
		return nil, nil
	}
	return newFile, fset
}

func tvFunc(e *ev.Evaluator, file *ast.File, name string) (*ev.Func, *ev.Env) {
	genv := ev.NewEnv(nil)
	var fn *ev.Func
	for _, d := range file.Decls {
		switch d := d.(type) {
		case *ast.GenDecl:
			if d.Tok == token.IMPORT {
				continue
			}
			e.Decl(genv, d)
		case *ast.FuncDecl:
			if d.Name.Name == name {
				fn = &ev.Func{Lit: &ast.FuncLit{Type: d.Type, Body: d.Body}, Env: genv}
			}
		}
	}
	return fn, genv
}

func tvPrint(fset *token.FileSet, n ast.Node) string {
	var sb strings.Builder
	printer.Fprint(&sb, fset, n)
	return sb.String()
}

// tvParams are the directive parameter sets under test (quick: the first tvNParams()).
var tvParams = []string{
	"flatten_passes=1",
	"flatten_passes=0",
	"flatten_passes=2",
	"flatten_passes=1 block_splits=2",
	"flatten_passes=1 junk_jumps=2",
	"flatten_passes=0 block_splits=1 junk_jumps=1",
}

// tvPolicy keeps the draws that only permute labels (the block shuffle) and
// the junk/split positions within a few alternatives; dispatcher keys
// (Perm, Int31) stay fully symbolic.
func tvPolicy(free int, freePerm bool) func(string, int) int {
	n := 0
	return func(method string, arg int) int {
		switch method {
		case "int31n", "Intn", "Int31n":
			n++
			if n > free {
				return 1
			}
			return 2
		case "global.Intn":
			return 1
		case "Perm":
			// the dispatcher keys: pairwise distinct whatever the permutation; they end up in
			// ssa.Const values, which cannot be symbolic, so every permutation would be a path
			// (symbolic keys reach the emitted code as literal markers; see the engine's go/constant intrinsic)
			if !freePerm {
				return 1
			}
		}
		return 0
	}
}

// tvCheck obfuscates sample s under directive parameters params and compares
// the evaluated result with the specification on symbolic arguments.
func tvCheck(s tvSample, params string) {
	nameCounter = 0
	symx.Stub("mvdan.cc/garble/internal/ctrlflow.getRandomName", freshName)
	// Dispatcher keys stay symbolic, except under hardening: there the keys feed xor / table
	// arithmetic whose all-keys queries the solvers do not finish (the key material itself is
	// H_C11_xor_keys' and H_C11_delegate_keys' subject), so the identity permutation is used.
	symx.DrawPolicy(tvPolicy(tier(1, 2), !strings.Contains(params, "hardening")))
	file, fset := tvBuild("package p\n\n//garble:controlflow " + params + "\n" + s.Src + "\n")
	symx.DrawPolicy(nil)
	if file == nil {
		return
	}
	symx.Reach("converted")
	args := make([]int, s.NArgs)
	vals := make([]ev.Val, s.NArgs)
	for i := range args {
		args[i] = symx.Int("a" + string(rune('0'+i)))
		if s.Lo[i] <= s.Hi[i] {
			symx.Assume(args[i] >= s.Lo[i] && args[i] <= s.Hi[i])
		}
		vals[i] = ev.MkInt(uint64(args[i]), ev.KInt)
	}
	str := ""
	if s.Str {
		// every string of 0..3 arbitrary bytes, valid UTF-8 or not
		n := symx.Choose(4)
		str = symx.String("s", n)
		vals = []ev.Val{ev.Str{S: str}}
	}
	e := ev.New()
	var res []ev.Val
	ok := e.Protect(func() {
		fn, _ := tvFunc(e, file, s.Name)
		if fn == nil {
			symx.Fail("function not emitted")
			return
		}
		res = e.CallFunc(fn, vals)
	})
	e.Report()
	// the specification
	var want []int
	wantPanic := false
	func() {
		defer func() {
			if r := recover(); r != nil {
				wantPanic = true
			}
		}()
		want = s.Orig(args, str)
	}()
	if e.Panic != nil || wantPanic {
		if (e.Panic != nil) != wantPanic {
			symx.Fail("obfuscated " + s.Name + " [" + params + "] panics in other situations than the original:\n" + tvPrint(fset, file))
		}
		symx.Reach("compared")
		return
	}
	if !ok {
		return
	}
	same := len(res) == len(want)
	for i := 0; same && i < len(res); i++ {
		switch r := res[i].(type) {
		case ev.Int:
			same = int(r.V) == want[i]
		case ev.Bool:
			same = tvB2I(r.B) == want[i]
		default:
			same = false
		}
	}
	if !same {
		symx.Fail("obfuscated " + s.Name + " [" + params + "] returns other values than the original:\n" + tvPrint(fset, file))
	}
	symx.Reach("compared")
}

func tvPick(str bool) tvSample {
	var set []tvSample
	for _, s := range tvSamples {
		if s.Str == str {
			set = append(set, s)
		}
	}
	return set[symx.Choose(len(set))]
}

// H_C11_tv: every integer sample x directive parameter set.
func H_C11_tv() {
	s := tvPick(false)
	params := tvParams[symx.Choose(tier(4, len(tvParams)))]
	tvCheck(s, params)
}

// H_C11_tv_strings: the samples that range over a string, on every string of 0..3 arbitrary bytes.
func H_C11_tv_strings() {
	s := tvPick(true)
	params := tvParams[symx.Choose(tier(2, 4))]
	tvCheck(s, params)
}

// H_C11_tv_one: development aid (not registered): one sample, one parameter set.
func H_C11_tv_one() {
	tvCheck(tvPick(true), "flatten_passes=1")
}

// H_C11_tv_two: development aid (not registered): the samples with defer / closures.
func H_C11_tv_two() {
	names := []string{"conv", "bits", "callDiv", "shadow"}
	want := names[symx.Choose(len(names))]
	for _, s := range tvSamples {
		if s.Name == want {
			tvCheck(s, "flatten_passes=1")
		}
	}
}
