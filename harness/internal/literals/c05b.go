package literals

import (
	"go/ast"
	"go/constant"
	"go/parser"
	"go/token"
	"go/types"

	"mvdan.cc/garble/internal/symx"
	ev "mvdan.cc/garble/internal/symxeval"
)

// C05-L11: literals.Obfuscate's traversal on a parsed and type-checked file:
// which expressions are rewritten, which must stay, and that every rewritten
// expression evaluates to the constant the type checker recorded for it.
// (go/parser, go/types and astutil.Apply run inside the engine.)

const traversalSrc = `package p

const keptConst = "constant-string-1"

var linked = "linker-x-variable"

var linkedParen = ("linked-in-parentheses")

var linkedConv = string("linked-by-conversion")

var plain = "variable-string-22"

var firstOfTwo, linkedSecond = "first-of-two-names", "second-name-is-linked"

type opcode byte

func (o opcode) name() string { return "op" }

var ops = []opcode{1, 2, 3, 4, 5, 6, 7, 8, 9}

var opsArr = [...]opcode{1, 2, 3, 4, 5, 6, 7, 8}

var sized = [len("array-length-string")]int{}

type named string

const typedConst named = "typed-constant-xx"

func f(s string) int {
	switch s {
	case "case-label-string":
		return 1
	}
	b := []byte{1, 2, 3, 4, 5, 6, 7, 8, 9}
	a := [9]byte{9, 8, 7, 6, 5, 4, 3, 2}
	p := &[]byte{1, 1, 1, 1, 1, 1, 1, 1}
	q := &[8]byte{2, 2, 2, 2, 2, 2, 2, 2}
	short := "short"
	seven := "7 bytes"
	return len(plain+"concat-part-abc") + len(b) + len(a) + len(*p) + len(q) + len(short) + len(seven) + len(keptConst) +
		len(ops[0].name()) + len(opsArr[1].name()) + len(firstOfTwo) + len(linkedSecond)
}

//go:nosplit
func g() string { return "nosplit-string-x" }
`

func H_C05_L11_traversal() {
	// the draws are not the subject here: one shape per literal
	symx.DrawPolicy(func(method string, n int) int { return 1 })
	fset := token.NewFileSet()
	file, err := parser.ParseFile(fset, "p.go", traversalSrc, parser.SkipObjectResolution|parser.ParseComments)
	if err != nil {
		symx.Fail("parse: " + err.Error())
		return
	}
	info := &types.Info{Types: map[ast.Expr]types.TypeAndValue{}, Defs: map[*ast.Ident]types.Object{}, Uses: map[*ast.Ident]types.Object{}}
	pkg, err := (&types.Config{}).Check("p", fset, []*ast.File{file}, info)
	if err != nil {
		symx.Fail("typecheck: " + err.Error())
		return
	}
	// what the type checker says each string-valued expression is, by position
	wantStr := map[token.Pos]string{}
	for e, tv := range info.Types {
		if tv.IsValue() && tv.Value != nil && tv.Type == types.Typ[types.String] {
			wantStr[e.Pos()] = constant.StringVal(tv.Value)
		}
	}
	linkStrings := map[*types.Var]string{
		pkg.Scope().Lookup("linked").(*types.Var):       "injected",
		pkg.Scope().Lookup("linkedSecond").(*types.Var): "injected too",
		pkg.Scope().Lookup("linkedParen").(*types.Var):  "injected 3",
		pkg.Scope().Lookup("linkedConv").(*types.Var):   "injected 4",
	}
	testPkgToObfuscatorMap = map[string]obfuscator{"p": idObf{}}
	nameCounter = 0
	nOrig := len(file.Decls)
	out := Obfuscate(symx.Rand(), file, info, linkStrings, testNames)
	testPkgToObfuscatorMap = nil
	symx.Reach("obfuscated")

	e := ev.New()
	genv := ev.NewEnv(nil)
	e.Protect(func() {
		// the proxy declarations AddToFile appended after the file's own
		for _, d := range out.Decls[nOrig:] {
			e.Decl(genv, d.(*ast.GenDecl))
		}
	})
	rewrittenStrings := map[string]bool{}
	rewrittenBytes := 0
	keptLits := map[string]bool{}
	ast.Inspect(out, func(n ast.Node) bool {
		switch n := n.(type) {
		case *ast.BasicLit:
			if n.Kind == token.STRING && len(n.Value) > 2 && n.Value[0] == '"' {
				keptLits[n.Value[1:len(n.Value)-1]] = true
			}
		case *ast.CallExpr:
			if _, isLambda := n.Fun.(*ast.FuncLit); !isLambda {
				return true
			}
			var got ev.Val
			if !e.Protect(func() { got = e.Eval(genv, n) }) {
				return false
			}
			switch v := got.(type) {
			case ev.Str:
				want, ok := wantStr[n.Pos()]
				symx.Assert(ok, "a rewritten string sits where the type checker saw a string constant")
				symx.Assert(v.S == want, "the rewritten string evaluates to the constant's value")
				rewrittenStrings[want] = true
			case ev.Bytes, ev.Arr, ev.Ptr:
				rewrittenBytes++
			default:
				symx.Fail("a literal lambda evaluates to an unexpected kind of value")
			}
			return false // do not look inside the lambda
		}
		return true
	})
	e.Report()
	for _, s := range []string{"variable-string-22", "concat-part-abc", "case-label-string"} {
		symx.Assert(rewrittenStrings[s], "rewritten: "+s)
	}
	for _, s := range []string{"constant-string-1", "typed-constant-xx", "linker-x-variable", "linked-in-parentheses", "linked-by-conversion", "second-name-is-linked", "nosplit-string-x", "short", "7 bytes", "array-length-string"} {
		symx.Assert(keptLits[s] && !rewrittenStrings[s], "left as a literal: "+s)
	}
	symx.Assert(rewrittenBytes == 4, "exactly the four []byte / [N]byte composite literals are rewritten")
	// the rewritten file must still type-check: every declaration keeps a type its uses accept
	info2 := &types.Info{Types: map[ast.Expr]types.TypeAndValue{}, Defs: map[*ast.Ident]types.Object{}, Uses: map[*ast.Ident]types.Object{}}
	var firstErr string
	conf := &types.Config{Error: func(err error) {
		if firstErr == "" {
			firstErr = err.Error()
		}
	}}
	conf.Check("p", fset, []*ast.File{out}, info2)
	symx.Assert(firstErr == "", "the obfuscated file still type-checks: "+firstErr)
	symx.Observe("rewritten", len(rewrittenStrings), rewrittenBytes)
}
