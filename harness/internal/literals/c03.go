package literals

import (
	"bytes"
	"go/printer"
	"go/token"

	"mvdan.cc/garble/internal/symx"
)

// H_C03_literals_deterministic: every obfuscator emits the same block when
// run twice on the same data with the same seeded draws.
func H_C03_literals_deterministic() {
	symx.DrawPolicy(func(method string, n int) int {
		if method == "Intn" && n == maxByteSliceExtKeyOps-minByteSliceExtKeyOps {
			return 1 // 2 key operations per slice
		}
		if method == "int31n" && n > 2 {
			return 1
		}
		return 0
	})
	obf := Obfuscators[symx.Choose(len(Obfuscators))]
	n := 1 + symx.Choose(tier(2, 3))
	data := symx.Bytes("data", n)
	run := func() string {
		keys := []*externalKey{
			{name: "garbleExternalKey0", typ: "uint8", value: 0x5a, bits: 8},
			{name: "garbleExternalKey1", typ: "uint64", value: 0x1122334455667788, bits: 64},
		}
		blk := obf.obfuscate(symx.Rand(), append([]byte(nil), data...), keys)
		var buf bytes.Buffer
		printer.Fprint(&buf, token.NewFileSet(), blk)
		return buf.String()
	}
	out1 := run()
	symx.RewindDraws()
	out2 := run()
	symx.Reach("twice")
	symx.Assert(out1 == out2, "the emitted literal code depends only on the seeded random source")
}
