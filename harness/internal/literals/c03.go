package literals

import (
	"bytes"
	"go/printer"
	"go/token"

	ah "mvdan.cc/garble/internal/asthelper"
	"mvdan.cc/garble/internal/symx"
	ev "mvdan.cc/garble/internal/symxeval"
)

// H_C03_literals_deterministic: every obfuscator emits the same block when
// run twice on the same data with the same seeded draws.
func H_C03_literals_deterministic() {
	globals, extDraws, keyTarget := 0, 0, false
	symx.DrawPolicy(func(method string, n int) int {
		if len(method) > 7 && method[:7] == "global." {
			// draws from the process-global source are the defect this harness looks for;
			// a handful per run is enough to exhibit it (and bounds retry loops built on them)
			globals++
			if globals > 4 {
				return -1
			}
			return 0
		}
		if method == "Intn" && n == maxExtKeyCount-minExtKeyCount && keyTarget {
			// randExtKeys: the number of keys is fixed to its minimum (2), their types stay free
			extDraws++
			if extDraws == 1 {
				return 1
			}
			return 0
		}
		if method == "Intn" && n == maxByteSliceExtKeyOps-minByteSliceExtKeyOps {
			return 1 // 2 key operations per slice
		}
		if method == "int31n" && n > 2 {
			return 1
		}
		return 0
	})
	// targets: the five obfuscators (with the two helpers replaced by their
	// contracts) and the two helpers themselves
	target := symx.Choose(len(Obfuscators) + 3)
	if target < len(Obfuscators) {
		installStubs()
	}
	n := 1 + symx.Choose(tier(2, 3))
	data := symx.Bytes("data", n)
	keyTarget = target == len(Obfuscators)+2
	run := func() string {
		stubByteLitCalls = 0
		extDraws = 0
		keys := []*externalKey{
			{name: "garbleExternalKey0", typ: "uint8", value: 0x5a, bits: 8},
			{name: "garbleExternalKey1", typ: "uint64", value: 0x1122334455667788, bits: 64},
		}
		r := symx.Rand()
		d := append([]byte(nil), data...)
		var node any
		switch {
		case target < len(Obfuscators):
			node = Obfuscators[target].obfuscate(r, d, keys)
		case target == len(Obfuscators):
			node = byteLitWithExtKey(r, d[0], keys, normalProb)
		case target == len(Obfuscators)+2:
			// the external keys every literal wrapper starts with: names, types, widths and
			// values (compared through the solver) are functions of the seeded draws
			var sb bytes.Buffer
			for _, k := range randExtKeys(r) {
				sb.WriteString(k.name + " " + k.typ + " " + string(rune('0'+k.bits/8)) + " ")
				sb.WriteString(ah.UintLit(k.value).Value + ";")
			}
			return sb.String()
		default:
			node = dataToByteSliceWithExtKeys(r, d, keys)
		}
		var buf bytes.Buffer
		printer.Fprint(&buf, token.NewFileSet(), node)
		return buf.String()
	}
	out1 := run()
	symx.RewindDraws()
	out2 := run()
	symx.Reach("twice")
	symx.Assert(ev.SameText(out1, out2), "the emitted literal code depends only on the seeded random source")
}
