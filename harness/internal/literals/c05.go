package literals

import (
	"go/ast"
	"go/token"
	mathrand "math/rand"
	"strconv"

	ah "mvdan.cc/garble/internal/asthelper"
	"mvdan.cc/garble/internal/symx"
	ev "mvdan.cc/garble/internal/symxeval"
)

// C05: obfuscated literals evaluate to their original values. Each harness
// runs a real generator on symbolic data with symbolic random draws and
// evaluates the emitted tree with symxeval.

const pkgPath = "mvdan.cc/garble/internal/literals."

func tier(quick, thorough int) int {
	if symx.Thorough() {
		return thorough
	}
	return quick
}

var keyKinds = map[string]ev.Kind{"uint8": ev.KUint8, "uint16": ev.KUint16, "uint32": ev.KUint32, "uint64": ev.KUint64}

// symKeys builds n external keys with symbolic values; widths are explored.
func symKeys(n int, widths []int) []*externalKey {
	keys := make([]*externalKey, n)
	for i := range keys {
		r := extKeyRanges[widths[symx.Choose(len(widths))]]
		keys[i] = &externalKey{
			name:  "garbleExternalKey" + strconv.Itoa(i),
			typ:   r.typ,
			value: symx.Uint64("key"+strconv.Itoa(i)) & r.max,
			bits:  r.bits,
		}
	}
	return keys
}

// keyEnv binds the external keys as the parameters of the generated lambda.
func keyEnv(keys []*externalKey) *ev.Env {
	env := ev.NewEnv(nil)
	for _, k := range keys {
		env.Define(k.name, ev.MkInt(k.value, keyKinds[k.typ]))
	}
	return env
}

func report(e *ev.Evaluator) { e.Report() }

func bytesEqual(a, b []byte) bool {
	if len(a) != len(b) {
		return false
	}
	eq := true
	for i := range a {
		eq = symx.And(eq, a[i] == b[i])
	}
	return eq
}

// H_C05_L1_byteLit: byteLitWithExtKey returns an expression that evaluates to val.
func H_C05_L1_byteLit() {
	symx.ForkSmallTables(true)
	r := symx.Rand()
	keys := symKeys(1+symx.Choose(2), []int{0, 1, 2, 3})
	val := symx.Byte("val")
	prob := []externalKeyProbability{lowProb, normalProb, highProb}[symx.Choose(3)]
	expr := byteLitWithExtKey(r, val, keys, prob)
	symx.Reach("generated")
	e := ev.New()
	var got ev.Val
	if e.Protect(func() { got = e.Eval(keyEnv(keys), expr) }) {
		iv, ok := got.(ev.Int)
		symx.Assert(ok && (iv.K == ev.KUntyped || iv.K == ev.KUint8), "result is a byte or an untyped constant")
		if ok {
			symx.Assert(byte(iv.V) == val && iv.V < 256, "byteLitWithExtKey evaluates to the original byte")
		}
	}
	report(e)
	used := false
	for _, k := range keys {
		used = used || k.IsUsed()
	}
	_ = used
}

// countPolicy bounds the first Intn(limit) draw (the operation count) to < maxExtra.
func countPolicy(limit, maxExtra int) func(string, int) int {
	first := true
	return func(method string, n int) int {
		if method == "Intn" && n == limit && first {
			first = false
			return maxExtra
		}
		return 0
	}
}

// H_C05_L2_extKeySlice: dataToByteSliceWithExtKeys returns an expression that
// evaluates to the bytes data held on entry (for the bounded operation counts).
func H_C05_L2_extKeySlice() {
	symx.ForkSmallTables(true)
	r := symx.Rand()
	sizes := []int{1, 2, 8}
	if symx.Thorough() {
		sizes = []int{1, 2, 3, 4, 8, 16}
	}
	n := sizes[symx.Choose(len(sizes))]
	keys := symKeys(1+symx.Choose(2), []int{0, 3})
	data := symx.Bytes("data", n)
	orig := append([]byte(nil), data...)
	// operation count = 2 + Intn(10): bounded to 2 (quick) / 2..3 (thorough)
	symx.DrawPolicy(countPolicy(maxByteSliceExtKeyOps-minByteSliceExtKeyOps, tier(1, 2)))
	expr := dataToByteSliceWithExtKeys(r, data, keys)
	symx.DrawPolicy(nil)
	symx.Reach("generated")
	e := ev.New()
	var got ev.Val
	if e.Protect(func() { got = e.Eval(keyEnv(keys), expr) }) {
		b, ok := got.(ev.Bytes)
		symx.Assert(ok, "result is a []byte")
		if ok {
			symx.Assert(bytesEqual(b.B, orig), "dataToByteSliceWithExtKeys evaluates to the original bytes")
		}
	}
	report(e)
}

// ---------------------------------------------------------------------------
// lemma stubs (contracts proved by L1 and L2)

// stubExtKeySlice is the contract of dataToByteSliceWithExtKeys: an expression
// evaluating to the bytes held on entry; the argument is scrambled afterwards.
func stubExtKeySlice(rand *mathrand.Rand, data []byte, extKeys []*externalKey) ast.Expr {
	expr := ah.DataToByteSlice(append([]byte(nil), data...))
	for i := range data {
		data[i] = symx.Byte("havoc")
	}
	return expr
}

var stubByteLitCalls int

// stubByteLit is the contract of byteLitWithExtKey: an expression evaluating
// to val, in one of the two shapes the real function produces (an untyped
// constant, or a typed byte expression using a key).
func stubByteLit(rand *mathrand.Rand, val byte, extKeys []*externalKey, p externalKeyProbability) ast.Expr {
	stubByteLitCalls++
	if stubByteLitCalls <= 2 && stubShape(stubByteLitCalls) == 1 {
		key := extKeys[0]
		key.AddRef()
		return operatorToReversedBinaryExpr(token.XOR, ah.CallExprByName("byte", ah.IntLit(int(val^byte(key.value)))), key.ToExpr(0))
	}
	return ah.IntLit(int(val))
}

var stubShapes [3]int

// stubShape picks the shape of the k-th stubbed byte literal once per path, so
// that a second run of the same code (2-safety harnesses) sees the same shape.
func stubShape(k int) int {
	if stubShapes[k] == 0 {
		stubShapes[k] = 1 + symx.Choose(2)
	}
	return stubShapes[k] - 1
}

func installStubs() {
	stubShapes = [3]int{}
	stubByteLitCalls = 0
	symx.Stub(pkgPath+"dataToByteSliceWithExtKeys", stubExtKeySlice)
	symx.Stub(pkgPath+"byteLitWithExtKey", stubByteLit)
}

// evalObfuscated runs the emitted block and returns the final `data`.
func evalObfuscated(e *ev.Evaluator, block *ast.BlockStmt, keys []*externalKey) ([]byte, bool) {
	var out []byte
	ok := e.Protect(func() {
		env := ev.NewEnv(keyEnv(keys))
		for _, s := range block.List {
			e.Exec(env, s)
		}
		v := env.Lookup("data")
		if v == nil {
			symx.Fail("generated code does not define data")
			return
		}
		b, isBytes := v.V.(ev.Bytes)
		if !isBytes {
			symx.Fail("data is not a []byte")
			return
		}
		out = b.B
	})
	return out, ok && out != nil
}

func checkObfuscator(obf obfuscator, n int, r *mathrand.Rand, keys []*externalKey) {
	data := symx.Bytes("data", n)
	orig := append([]byte(nil), data...)
	block := obf.obfuscate(r, data, keys)
	symx.Reach("generated")
	e := ev.New()
	if got, ok := evalObfuscated(e, block, keys); ok {
		symx.Assert(bytesEqual(got, orig), "the emitted code rebuilds the original bytes")
	}
	report(e)
}

func pick(sizesQuick, sizesThorough []int) int {
	s := sizesQuick
	if symx.Thorough() {
		s = sizesThorough
	}
	return s[symx.Choose(len(s))]
}

// H_C05_L3_simple: simple.obfuscate (L2 stubbed).
func H_C05_L3_simple() {
	installStubs()
	symx.ForkSmallTables(true)
	n := pick([]int{1, 8}, []int{1, 2, 8, 64})
	checkObfuscator(simple{}, n, symx.Rand(), symKeys(2, []int{0, 3}))
}

// H_C05_L4a_swap_full: swap.obfuscate complete for tiny sizes.
func H_C05_L4a_swap_full() {
	installStubs()
	symx.ForkSmallTables(true)
	n := pick([]int{1, 2}, []int{1, 2, 3})
	checkObfuscator(swap{}, n, symx.Rand(), symKeys(2, []int{0, 3}))
}

// H_C05_L4b_swap_steps: one and two swap steps from an arbitrary state at
// realistic sizes (generateSwapCount stubbed to 2 / 4).
func H_C05_L4b_swap_steps() {
	installStubs()
	symx.ForkSmallTables(true)
	steps := 2 * (1 + symx.Choose(tier(1, 2)))
	symx.Stub(pkgPath+"generateSwapCount", func(r *mathrand.Rand, dataLen int) int { return steps })
	n := pick([]int{8}, []int{8, 16, 32})
	checkObfuscator(swap{}, n, symx.Rand(), symKeys(2, []int{0, 3}))
}

// H_C05_L4c_swapcount: generateSwapCount is even and at least the length, and
// every position fits the index type chosen for the positions array.
func H_C05_L4c_swapcount() {
	n := symx.Int("n")
	symx.Assume(n >= 1 && n <= 2055)
	c := generateSwapCount(symx.Rand(), n)
	symx.Reach("generated")
	symx.Assert(c%2 == 0, "swap count is even")
	symx.Assert(c >= n && c <= n+n/2+1, "swap count within [n, n+n/2+1]")
	// positions are < n and the index type is chosen from the count of positions
	pos := symx.Int("pos")
	symx.Assume(pos >= 0 && pos < n)
	switch getIndexType(int64(c)) {
	case "byte":
		symx.Assert(pos <= 255, "positions fit byte")
	case "uint16":
		symx.Assert(pos <= 65535, "positions fit uint16")
	}
}

// shufflePolicy lets 2-statement bodies take both orders and restricts larger
// shuffles (the case list) to the draws j=0 or j=i (2 of the orders).
func shufflePolicy(method string, n int) int {
	if method == "int31n" && n > 2 {
		return 1
	}
	return 0
}

// H_C05_L5_split: split.obfuscate.
func H_C05_L5_split() {
	installStubs()
	symx.ForkSmallTables(true)
	symx.DrawPolicy(shufflePolicy)
	n := pick([]int{1, 2, 3}, []int{1, 2, 3, 4, 8})
	checkObfuscator(split{}, n, symx.Rand(), symKeys(2, []int{0, 3}))
}

// H_C05_L5b_chunks: chunking covers the data exactly, in order.
func H_C05_L5b_chunks() {
	n := pick([]int{5, 9}, []int{5, 9, 12, 13})
	data := symx.Bytes("data", n)
	chunks := splitIntoRandomChunks(symx.Rand(), data)
	symx.Reach("generated")
	var joined []byte
	for _, c := range chunks {
		symx.Assert(len(c) >= 1 && len(c) <= maxChunkSize, "chunk size within 1..4")
		joined = append(joined, c...)
	}
	symx.Assert(bytesEqual(joined, data), "chunks concatenate to the data")
}

// H_C05_L6_shuffle: shuffle.obfuscate.
func H_C05_L6_shuffle() {
	installStubs()
	n := pick([]int{1, 2, 3}, []int{1, 2, 3, 4, 8})
	checkObfuscator(shuffle{}, n, symx.Rand(), symKeys(2, []int{0, 3}))
}

// H_C05_L7_seed: seed.obfuscate.
func H_C05_L7_seed() {
	installStubs()
	symx.ForkSmallTables(true)
	n := pick([]int{1, 2, 8}, []int{1, 2, 8, 32})
	checkObfuscator(seed{}, n, symx.Rand(), symKeys(2, []int{0, 3}))
}

// H_C05_L10_pick: pickObfuscator panics exactly outside [MinSize, MaxSize] and
// only uses cheap obfuscators above MaxSizeExpensive.
func H_C05_L10_pick() {
	size := symx.Int("size")
	symx.Assume(size >= 0 && size <= 4096)
	or := &obfRand{rnd: symx.Rand()}
	panicked := false
	var obf obfuscator
	func() {
		defer func() {
			if recover() != nil {
				panicked = true
			}
		}()
		obf = or.pickObfuscator(size)
	}()
	symx.Reach("generated")
	symx.Assert(panicked == (size < MinSize || size > MaxSize), "panics exactly outside the window")
	if !panicked && size > MaxSizeExpensive {
		_, isSimple := obf.(simple)
		_, isSwap := obf.(swap)
		symx.Assert(isSimple || isSwap, "only cheap obfuscators above 256 bytes")
	}
}

// ---------------------------------------------------------------------------
// wrappers (literals.go) and the proxy dispatcher

// idObf is the contract of every obfuscator (proved by L3..L7): a block that
// leaves the original bytes in `data`; the argument is scrambled afterwards.
type idObf struct{}

func (idObf) obfuscate(r *mathrand.Rand, data []byte, keys []*externalKey) *ast.BlockStmt {
	blk := ah.BlockStmt(ah.AssignDefineStmt(ast.NewIdent("data"), ah.DataToByteSlice(append([]byte(nil), data...))))
	for i := range data {
		data[i] = symx.Byte("havoc")
	}
	return blk
}

var nameCounter int

func testNames(r *mathrand.Rand, base string) string {
	nameCounter++
	return "n" + strconv.Itoa(nameCounter) + "_" + base
}

// hideIdentity is the contract of proxyDispatcher.HideValue (proved by L9).
func hideIdentity(d *proxyDispatcher, val, typ ast.Expr) ast.Expr { return val }

// wrapperPolicy: the Intn call number countCall (1-based) is the external key
// count draw: bounded so that 2 keys are generated; key widths are limited to
// the first `widths` entries of extKeyRanges; everything else is free.
func wrapperPolicy(countCall, widths int) func(string, int) int {
	calls := 0
	return func(method string, n int) int {
		if method != "Intn" {
			return 0
		}
		calls++
		switch {
		case calls == countCall:
			return 1 // key count = minExtKeyCount
		case calls > countCall && n == len(extKeyRanges):
			return widths
		}
		return 0
	}
}

func newTestObfRand() *obfRand {
	nameCounter = 0
	r := symx.Rand()
	return &obfRand{rnd: r, testObfuscator: idObf{}, proxyDispatcher: newProxyDispatcher(r, testNames)}
}

// evalFileAndCall evaluates the declarations AddToFile produced and then the
// lambda call that replaced the literal.
func evalFileAndCall(e *ev.Evaluator, or *obfRand, call ast.Expr) (ev.Val, bool) {
	file := &ast.File{Name: ast.NewIdent("p")}
	or.proxyDispatcher.AddToFile(file)
	var out ev.Val
	ok := e.Protect(func() {
		genv := ev.NewEnv(nil)
		for _, d := range file.Decls {
			e.Decl(genv, d.(*ast.GenDecl))
		}
		out = e.Eval(genv, call)
	})
	return out, ok
}

// H_C05_L8_string: obfuscateString: junk padding, slicing, key parameters.
func H_C05_L8_string() {
	symx.Stub("(*"+pkgPath+"proxyDispatcher).HideValue", hideIdentity)
	symx.DrawPolicy(wrapperPolicy(3, tier(2, 4))) // Intn calls: junk length, split index, key count
	n := pick([]int{8}, []int{8, 9, 16})
	s := symx.String("s", n)
	or := newTestObfRand()
	call := obfuscateString(or, s)
	symx.Reach("generated")
	e := ev.New()
	if got, ok := evalFileAndCall(e, or, call); ok {
		str, isStr := got.(ev.Str)
		symx.Assert(isStr, "the replacement is a string")
		if isStr {
			symx.Assert(str.S == s, "the obfuscated string evaluates to the original")
		}
	}
	report(e)
}

// H_C05_L8_bytes: obfuscateByteSlice and obfuscateByteArray, value and pointer forms.
func H_C05_L8_bytes() {
	symx.Stub("(*"+pkgPath+"proxyDispatcher).HideValue", hideIdentity)
	symx.DrawPolicy(wrapperPolicy(1, tier(2, 4))) // the first Intn call is the key count
	n := pick([]int{8}, []int{8, 9})
	data := symx.Bytes("data", n)
	orig := append([]byte(nil), data...)
	or := newTestObfRand()
	isPtr := symx.Choose(2) == 1
	isArray := symx.Choose(2) == 1
	alen := n
	var call ast.Expr
	if isArray {
		// [N]byte{...} may list fewer elements than N: the rest is zero
		alen = n + symx.Choose(2)
		call = obfuscateByteArray(or, isPtr, data, int64(alen))
	} else {
		call = obfuscateByteSlice(or, isPtr, data)
	}
	symx.Reach("generated")
	e := ev.New()
	if got, ok := evalFileAndCall(e, or, call); ok {
		if isPtr {
			p, isP := got.(ev.Ptr)
			symx.Assert(isP && p.Target != nil, "the replacement is a non-nil pointer")
			if !isP || p.Target == nil {
				report(e)
				return
			}
			got = p.Target.V
		}
		if isArray {
			a, isA := got.(ev.Arr)
			symx.Assert(isA && a.IsArray && len(a.E) == alen, "the replacement is a [N]byte")
			if isA && len(a.E) == alen {
				eq := true
				for i := range a.E {
					want := byte(0)
					if i < len(orig) {
						want = orig[i]
					}
					eq = symx.And(eq, byte(a.E[i].V) == want)
				}
				symx.Assert(eq, "the obfuscated array evaluates to the original, zero padded")
			}
		} else {
			b, isB := got.(ev.Bytes)
			symx.Assert(isB, "the replacement is a []byte")
			if isB {
				symx.Assert(bytesEqual(b.B, orig), "the obfuscated slice evaluates to the original")
			}
		}
	}
	report(e)
}

// proxyPolicy: 4 proxy structs, minimal junk, identity shuffles; pointer-ness,
// tree shape and the struct chosen by HideValue stay free.
func proxyPolicy(method string, n int) int {
	switch {
	case method == "Intn" && n == maxStructCount-minStructCount:
		return 1
	case method == "Intn" && n == maxJunkValueCount-minJunkValueCount+1:
		return 1
	case method == "Intn" && n == maxJunkArraySize-minJunkArraySize+1:
		return 1
	case method == "int31n":
		return 1
	}
	return 0
}

// H_C05_L9_proxy: values hidden in the proxy struct tree are read back
// through the paths HideValue returned.
func H_C05_L9_proxy() {
	symx.DrawPolicy(proxyPolicy)
	nameCounter = 0
	r := symx.Rand()
	d := newProxyDispatcher(r, testNames)
	v1 := symx.Uint64("v1")
	v2 := symx.Byte("v2")
	p1 := d.HideValue(ah.UintLit(v1), ast.NewIdent("uint64"))
	p2 := d.HideValue(ah.IntLit(int(v2)), ast.NewIdent("byte"))
	file := &ast.File{Name: ast.NewIdent("p")}
	d.AddToFile(file)
	symx.Reach("generated")
	e := ev.New()
	ok := e.Protect(func() {
		genv := ev.NewEnv(nil)
		for _, dc := range file.Decls {
			e.Decl(genv, dc.(*ast.GenDecl))
		}
		g1, ok1 := e.Eval(genv, p1).(ev.Int)
		g2, ok2 := e.Eval(genv, p2).(ev.Int)
		symx.Assert(ok1 && ok2, "hidden values are integers")
		if ok1 && ok2 {
			symx.Assert(g1.V == v1 && g1.K == ev.KUint64, "first hidden value read back")
			symx.Assert(byte(g2.V) == v2 && g2.K == ev.KUint8, "second hidden value read back")
		}
	})
	_ = ok
	report(e)
}

// H_C05_L6b_shuffle_big: shuffle.obfuscate where the shuffled buffer exceeds
// 256 entries (index arithmetic beyond one byte). The permutation draw is
// restricted to one order; data, keys, operators and index keys stay symbolic.
func H_C05_L6b_shuffle_big() {
	installStubs()
	symx.DrawPolicy(func(method string, n int) int {
		if method == "Perm" {
			return 1
		}
		if method == "Intn" && n == 129 {
			return 3 // index key of 2 bytes
		}
		return 0
	})
	checkObfuscator(shuffle{}, 129, symx.Rand(), symKeys(2, []int{0}))
}
