package symxeval

import (
	"mvdan.cc/garble/internal/symx"
)

const symMarker = "\x00SYM"

// splitMarkers returns text with every symbolic literal marker replaced by a
// placeholder, and the markers in order of appearance.
func splitMarkers(text string) (shape string, markers []string) {
	var out []byte
	for i := 0; i < len(text); {
		if i+len(symMarker) <= len(text) && text[i:i+len(symMarker)] == symMarker {
			j := i + len(symMarker)
			for j < len(text) && text[j] >= '0' && text[j] <= '9' {
				j++
			}
			markers = append(markers, text[i:j])
			out = append(out, "<lit>"...)
			i = j
			continue
		}
		out = append(out, text[i])
		i++
	}
	return string(out), markers
}

// SameText reports whether two printed trees are the same code: identical
// text apart from symbolic literals, whose values must be equal (decided by
// the solver). Natively literals are ordinary text and this is string equality.
func SameText(a, b string) bool {
	sa, ma := splitMarkers(a)
	sb, mb := splitMarkers(b)
	if sa != sb || len(ma) != len(mb) {
		return false
	}
	same := true
	for i := range ma {
		if va, _, ok := symx.IntOfLit(ma[i]); ok {
			vb, _, ok2 := symx.IntOfLit(mb[i])
			if !ok2 {
				return false
			}
			same = symx.And(same, va == vb)
			continue
		}
		ba, ok := symx.BytesOfLit(ma[i])
		bb, ok2 := symx.BytesOfLit(mb[i])
		if !ok || !ok2 || len(ba) != len(bb) {
			return false
		}
		for k := range ba {
			same = symx.And(same, ba[k] == bb[k])
		}
	}
	return same
}
