// Package symxeval evaluates the subset of go/ast that garble's literal and
// control-flow obfuscators emit. It is ordinary Go: under gosx it is executed
// by the engine, so integer values may be symbolic; natively it runs on the
// concrete trees (replay, and the differential validation against the real
// compiler).
//
// Besides evaluating, it enforces the compile-time rules that can break a
// build of the emitted code: typed constants must fit their type, switch
// labels must be distinct, operand types must match.
package symxeval

import (
	"fmt"
	"go/ast"
	"go/token"
	"strconv"
	"strings"

	"mvdan.cc/garble/internal/symx"
)

type Kind int

const (
	KUntyped Kind = iota
	KInt
	KUint8
	KUint16
	KUint32
	KUint64
	KInt32
	KUint
	KInt64
	KInt8
	KInt16
)

func (k Kind) String() string {
	return [...]string{"untyped", "int", "uint8", "uint16", "uint32", "uint64", "int32", "uint", "int64", "int8", "int16"}[k]
}

func kindOfName(name string) (Kind, bool) {
	switch name {
	case "int":
		return KInt, true
	case "byte", "uint8":
		return KUint8, true
	case "uint16":
		return KUint16, true
	case "uint32":
		return KUint32, true
	case "uint64":
		return KUint64, true
	case "int32", "rune":
		return KInt32, true
	case "uint", "uintptr":
		return KUint, true
	case "int64":
		return KInt64, true
	case "int8":
		return KInt8, true
	case "int16":
		return KInt16, true
	}
	return 0, false
}

func (k Kind) bits() uint {
	switch k {
	case KUint8, KInt8:
		return 8
	case KUint16, KInt16:
		return 16
	case KUint32, KInt32:
		return 32
	}
	return 64
}

func (k Kind) signed() bool {
	return k == KInt || k == KInt32 || k == KInt64 || k == KUntyped || k == KInt8 || k == KInt16
}

func (k Kind) mask() uint64 {
	if k.bits() == 64 {
		return ^uint64(0)
	}
	return uint64(1)<<k.bits() - 1
}

// Int is an integer value. V holds the value truncated to the kind's width
// (two's complement for signed kinds, sign-extended to 64 bits).
type Int struct {
	V     uint64
	K     Kind
	Const bool
	U     bool // untyped constant whose V is an unsigned 64-bit magnitude (not negative)
}

// Bytes is a []byte value (shares its backing array like a Go slice).
type Bytes struct{ B []byte }

// Arr is an array or slice of integers other than []byte, or a [N]byte array.
// Arrays are values: assignment copies (see copyVal).
type Arr struct {
	E       []Int
	K       Kind
	IsArray bool
}

// List is an array or slice of non-integer values (functions).
type List struct {
	E       []Val
	IsArray bool
}

type Str struct{ S string }

type Bool struct{ B bool }

type Func struct {
	Lit *ast.FuncLit
	Env *Env
}

type Ptr struct{ Target *Var }

type Struct struct {
	Type   string
	Fields map[string]*Var
}

type Nil struct{}

type Val interface{}

type Var struct{ V Val }

type Env struct {
	vars   map[string]*Var
	parent *Env
}

func NewEnv(parent *Env) *Env { return &Env{vars: map[string]*Var{}, parent: parent} }

func (e *Env) Lookup(name string) *Var {
	for s := e; s != nil; s = s.parent {
		if v, ok := s.vars[name]; ok {
			return v
		}
	}
	return nil
}

func (e *Env) Define(name string, v Val) *Var {
	vr := &Var{V: v}
	e.vars[name] = vr
	return vr
}

// Evaluator carries the type declarations and failure state.
type Evaluator struct {
	Types       map[string]ast.Expr // named types declared in the evaluated code
	Failures    []string
	Unsupported []string
	Steps       int
	MaxSteps    int
	gotoLabel   string   // target of a pending goto (ctlGoto)
	Panic       *GoPanic // set by Protect when the evaluated code called panic
	frames      []*callFrame
	deferring   *callFrame // the frame whose deferred calls are running (what recover() looks at)
}

// callFrame is the activation record of an evaluated function: its deferred
// calls and, while they run after a panic, the value recover() would return.
type callFrame struct {
	defers    []func()
	panicking *GoPanic
	recovered bool
}

// GoPanic is raised (as a Go panic) when the evaluated code calls panic(v).
type GoPanic struct{ V Val }

func New() *Evaluator { return &Evaluator{Types: map[string]ast.Expr{}, MaxSteps: 200000} }

type abort struct{}

func (ev *Evaluator) fail(format string, args ...any) {
	msg := fmt.Sprintf(format, args...)
	if strings.HasPrefix(msg, "unsupported") {
		// a construct outside the evaluator's subset: inconclusive, not a failure
		ev.Unsupported = append(ev.Unsupported, msg)
	} else {
		ev.Failures = append(ev.Failures, msg)
	}
	panic(abort{})
}

// Report hands the evaluator's findings to symx: failures of the generated
// code are violations, unsupported constructs make the path inconclusive.
func (ev *Evaluator) Report() {
	for _, u := range ev.Unsupported {
		symx.Unsupported("symxeval: " + u)
	}
	for _, f := range ev.Failures {
		symx.Fail("generated code: " + f)
	}
}

// Protect runs f, converting evaluator aborts and run-time panics of the
// evaluated code (index out of range, nil dereference) into failures.
func (ev *Evaluator) Protect(f func()) (ok bool) {
	defer func() {
		if r := recover(); r != nil {
			if gp, isPanic := r.(GoPanic); isPanic {
				ev.Panic = &gp
			} else if _, isAbort := r.(abort); !isAbort {
				ev.Failures = append(ev.Failures, fmt.Sprint("run-time panic in generated code: ", r))
			}
			ok = false
		}
	}()
	f()
	return true
}

func norm(v uint64, k Kind) uint64 {
	switch k {
	case KUint8:
		return v & 0xff
	case KUint16:
		return v & 0xffff
	case KUint32:
		return v & 0xffffffff
	case KInt32:
		return uint64(int64(int32(uint32(v))))
	case KInt8:
		return uint64(int64(int8(uint8(v))))
	case KInt16:
		return uint64(int64(int16(uint16(v))))
	}
	return v
}

// MkInt builds a non-constant integer of kind k.
func MkInt(v uint64, k Kind) Int { return Int{V: norm(v, k), K: k} }

// fits asserts that the constant c is representable in kind k (a compile
// error otherwise).
func (ev *Evaluator) fits(c Int, k Kind, what string) {
	if !c.Const || k == KUntyped {
		return
	}
	var ok bool
	sv := int64(c.V)
	if c.K == KUntyped && c.U {
		// non-negative magnitude: compare unsigned
		switch k {
		case KUint8:
			ok = c.V <= 0xff
		case KUint16:
			ok = c.V <= 0xffff
		case KUint32:
			ok = c.V <= 0xffffffff
		case KInt32:
			ok = c.V <= 1<<31-1
		case KInt8:
			ok = c.V <= 1<<7-1
		case KInt16:
			ok = c.V <= 1<<15-1
		case KInt, KInt64:
			ok = c.V <= 1<<63-1
		default:
			ok = true
		}
		symx.Assert(ok, "compile error: constant does not fit "+k.String()+" in "+what)
		return
	}
	switch k {
	case KUint8:
		ok = symx.And(sv >= 0, sv <= 0xff)
	case KUint16:
		ok = symx.And(sv >= 0, sv <= 0xffff)
	case KUint32:
		ok = symx.And(sv >= 0, sv <= 0xffffffff)
	case KInt32:
		ok = symx.And(sv >= -1<<31, sv <= 1<<31-1)
	case KInt8:
		ok = symx.And(sv >= -1<<7, sv <= 1<<7-1)
	case KInt16:
		ok = symx.And(sv >= -1<<15, sv <= 1<<15-1)
	case KUint64, KUint:
		ok = sv >= 0 || c.K == KUint64 || c.K == KUint
	default:
		ok = true
	}
	symx.Assert(ok, "compile error: constant does not fit "+k.String()+" in "+what)
}

// convInt converts x to kind k with Go semantics.
func (ev *Evaluator) convInt(x Int, k Kind, what string) Int {
	if x.Const {
		ev.fits(x, k, what)
	}
	return Int{V: norm(x.V, k), K: k, Const: x.Const}
}

// unify brings two operands of a binary operation to a common kind.
func (ev *Evaluator) unify(x, y Int, what string) (Int, Int, Kind) {
	switch {
	case x.K == y.K:
		return x, y, x.K
	case x.K == KUntyped:
		return ev.convInt(x, y.K, what), y, y.K
	case y.K == KUntyped:
		return x, ev.convInt(y, x.K, what), x.K
	}
	ev.fail("compile error: mismatched types %s and %s in %s", x.K, y.K, what)
	return x, y, x.K
}

func (ev *Evaluator) binary(op token.Token, xv, yv Val, what string) Val {
	if op == token.EQL || op == token.NEQ {
		// comparison of an interface value (e.g. what recover() returned) with nil
		_, xnil := xv.(Nil)
		_, ynil := yv.(Nil)
		if xnil || ynil {
			return Bool{(xnil && ynil) == (op == token.EQL)}
		}
	}
	if xb, ok := xv.(Bool); ok {
		yb := yv.(Bool)
		switch op {
		case token.LAND:
			return Bool{symx.And(xb.B, yb.B)}
		case token.LOR:
			return Bool{symx.Or(xb.B, yb.B)}
		case token.EQL:
			return Bool{xb.B == yb.B}
		case token.NEQ:
			return Bool{xb.B != yb.B}
		}
		ev.fail("unsupported boolean operator %s", op)
	}
	x, ok1 := xv.(Int)
	y, ok2 := yv.(Int)
	if !ok1 || !ok2 {
		ev.fail("unsupported operands %T %s %T in %s", xv, op, yv, what)
	}
	if op == token.SHL || op == token.SHR {
		if y.K.signed() && y.K != KUntyped {
			if int64(y.V) < 0 {
				ev.fail("negative shift count")
			}
		}
		k := x.K
		cnt := y.V
		var r uint64
		if op == token.SHL {
			r = x.V << cnt
		} else if k.signed() {
			r = uint64(int64(x.V) >> cnt)
		} else {
			r = x.V >> cnt
		}
		res := Int{V: norm(r, k), K: k, Const: x.Const && y.Const}
		if res.Const && k != KUntyped && op == token.SHL {
			// constant shift overflow is a compile error
			ev.fits(Int{V: r, K: KUntyped, Const: true}, k, what)
		}
		return res
	}
	x, y, k := ev.unify(x, y, what)
	c := x.Const && y.Const
	mk := func(v uint64) Val {
		res := Int{V: norm(v, k), K: k, Const: c}
		if c && k != KUntyped && k.bits() < 64 {
			// typed constant arithmetic must not overflow
			ev.fits(Int{V: v, K: KUntyped, Const: true}, k, what)
		}
		return res
	}
	cmp := func(lt, eq bool) Val { return Bool{lt} }
	_ = cmp
	switch op {
	case token.ADD:
		return mk(x.V + y.V)
	case token.SUB:
		if c && k != KUntyped && !k.signed() {
			symx.Assert(x.V >= y.V, "compile error: constant subtraction underflows "+k.String()+" in "+what)
		}
		return Int{V: norm(x.V-y.V, k), K: k, Const: c}
	case token.MUL:
		return mk(x.V * y.V)
	case token.XOR:
		return Int{V: norm(x.V^y.V, k), K: k, Const: c}
	case token.AND:
		return Int{V: x.V & y.V, K: k, Const: c}
	case token.OR:
		return Int{V: x.V | y.V, K: k, Const: c}
	case token.AND_NOT:
		return Int{V: x.V &^ y.V, K: k, Const: c}
	case token.REM, token.QUO:
		if y.V == 0 {
			ev.fail("division by zero in %s", what)
		}
		if k.signed() {
			if op == token.REM {
				return Int{V: norm(uint64(int64(x.V)%int64(y.V)), k), K: k, Const: c}
			}
			return Int{V: norm(uint64(int64(x.V)/int64(y.V)), k), K: k, Const: c}
		}
		if op == token.REM {
			return Int{V: x.V % y.V, K: k, Const: c}
		}
		return Int{V: x.V / y.V, K: k, Const: c}
	case token.EQL:
		return Bool{x.V == y.V}
	case token.NEQ:
		return Bool{x.V != y.V}
	case token.LSS, token.GTR, token.LEQ, token.GEQ:
		var lt, gt bool
		if k.signed() {
			lt, gt = int64(x.V) < int64(y.V), int64(x.V) > int64(y.V)
		} else {
			lt, gt = x.V < y.V, x.V > y.V
		}
		switch op {
		case token.LSS:
			return Bool{lt}
		case token.GTR:
			return Bool{gt}
		case token.LEQ:
			return Bool{!gt}
		default:
			return Bool{!lt}
		}
	}
	ev.fail("unsupported operator %s in %s", op, what)
	return nil
}

// ParseIntLit evaluates an integer literal text (possibly a symbolic marker).
func (ev *Evaluator) ParseIntLit(text string) Int {
	if v, signed, ok := symx.IntOfLit(text); ok {
		return Int{V: v, K: KUntyped, Const: true, U: !signed}
	}
	if u, err := strconv.ParseUint(text, 0, 64); err == nil {
		return Int{V: u, K: KUntyped, Const: true, U: true}
	}
	if s, err := strconv.ParseInt(text, 0, 64); err == nil {
		return Int{V: uint64(s), K: KUntyped, Const: true}
	}
	ev.fail("cannot parse integer literal %q", text)
	return Int{}
}

func (ev *Evaluator) parseStringLit(text string) []byte {
	if b, ok := symx.BytesOfLit(text); ok {
		return b
	}
	s, err := strconv.Unquote(text)
	if err != nil {
		ev.fail("cannot unquote string literal %q", text)
	}
	return []byte(s)
}

func copyVal(v Val) Val {
	switch v := v.(type) {
	case Arr:
		if v.IsArray {
			return Arr{E: append([]Int(nil), v.E...), K: v.K, IsArray: true}
		}
	case *Struct:
		// struct values are only built by composite literals and read afterwards
	}
	return v
}

func (ev *Evaluator) tick() {
	ev.Steps++
	if ev.Steps > ev.MaxSteps {
		ev.fail("evaluation step limit reached (non-terminating generated code?)")
	}
}

// ---------------------------------------------------------------------------
// expressions

func (ev *Evaluator) typeKind(t ast.Expr) (Kind, bool) {
	if id, ok := t.(*ast.Ident); ok {
		return kindOfName(id.Name)
	}
	return 0, false
}

func (ev *Evaluator) asIndex(v Val, n int, what string) int {
	iv, ok := v.(Int)
	if !ok {
		ev.fail("non-integer index in %s", what)
	}
	var idx int
	if iv.K.signed() {
		if int64(iv.V) < 0 {
			ev.fail("negative index in %s", what)
		}
	}
	if iv.V >= uint64(n) {
		ev.fail("index out of range in %s (length %d)", what, n)
	}
	idx = int(iv.V)
	return idx
}

func (ev *Evaluator) Eval(env *Env, e ast.Expr) Val {
	ev.tick()
	switch e := e.(type) {
	case *ast.ParenExpr:
		return ev.Eval(env, e.X)
	case *ast.BasicLit:
		switch e.Kind {
		case token.INT:
			return ev.ParseIntLit(e.Value)
		case token.STRING:
			return Str{string(ev.parseStringLit(e.Value))}
		case token.CHAR:
			s, err := strconv.Unquote(e.Value)
			if err != nil {
				ev.fail("bad char literal %s", e.Value)
			}
			return Int{V: uint64([]rune(s)[0]), K: KUntyped, Const: true}
		}
		ev.fail("unsupported literal kind %s", e.Kind)
	case *ast.Ident:
		switch e.Name {
		case "true":
			return Bool{true}
		case "false":
			return Bool{false}
		case "nil":
			return Nil{}
		}
		v := env.Lookup(e.Name)
		if v == nil {
			ev.fail("compile error: undefined: %s", e.Name)
		}
		return v.V
	case *ast.BinaryExpr:
		x := ev.Eval(env, e.X)
		y := ev.Eval(env, e.Y)
		return ev.binary(e.Op, x, y, "binary expression")
	case *ast.UnaryExpr:
		if e.Op == token.AND {
			switch x := e.X.(type) {
			case *ast.Ident:
				v := env.Lookup(x.Name)
				if v == nil {
					ev.fail("compile error: undefined: %s", x.Name)
				}
				return Ptr{v}
			case *ast.CompositeLit:
				return Ptr{&Var{V: ev.Eval(env, x)}}
			}
			ev.fail("unsupported operand of &")
		}
		x := ev.Eval(env, e.X)
		switch e.Op {
		case token.NOT:
			return Bool{!x.(Bool).B}
		case token.SUB:
			xi := x.(Int)
			return Int{V: norm(-xi.V, xi.K), K: xi.K, Const: xi.Const}
		case token.XOR:
			xi := x.(Int)
			return Int{V: norm(^xi.V, xi.K), K: xi.K, Const: xi.Const}
		case token.ADD:
			return x
		}
		ev.fail("unsupported unary operator %s", e.Op)
	case *ast.StarExpr:
		p, ok := ev.Eval(env, e.X).(Ptr)
		if !ok || p.Target == nil {
			ev.fail("nil or non-pointer dereference")
		}
		return p.Target.V
	case *ast.IndexExpr:
		x := ev.Eval(env, e.X)
		i := ev.Eval(env, e.Index)
		if p, ok := x.(Ptr); ok { // pointer to array auto-dereference
			x = p.Target.V
		}
		switch x := x.(type) {
		case Bytes:
			return Int{V: uint64(x.B[ev.asIndex(i, len(x.B), "index expression")]), K: KUint8}
		case Arr:
			idx := ev.asIndex(i, len(x.E), "index expression")
			if !symx.IsConcrete(idx) && len(x.E) > 0 {
				// symbolic index: merge the elements instead of forking
				m := x.E[len(x.E)-1]
				for k := len(x.E) - 2; k >= 0; k-- {
					m.V = uint64(symx.Ite(idx == k, int(x.E[k].V), int(m.V)))
				}
				m.Const = false
				return m
			}
			return x.E[idx]
		case Str:
			return Int{V: uint64(x.S[ev.asIndex(i, len(x.S), "index expression")]), K: KUint8}
		case List:
			return x.E[symx.Concretize(ev.asIndex(i, len(x.E), "index expression"))]
		}
		ev.fail("cannot index %T", x)
	case *ast.SliceExpr:
		x := ev.Eval(env, e.X)
		n := 0
		switch x := x.(type) {
		case Bytes:
			n = cap(x.B)
		case Str:
			n = len(x.S)
		default:
			ev.fail("cannot slice %T", x)
		}
		lo, hi := 0, -1
		if e.Low != nil {
			lo = int(symx.Concretize(int(ev.Eval(env, e.Low).(Int).V)))
		}
		if e.High != nil {
			hi = int(symx.Concretize(int(ev.Eval(env, e.High).(Int).V)))
		}
		switch x := x.(type) {
		case Bytes:
			if hi < 0 {
				hi = len(x.B)
			}
			if lo < 0 || lo > hi || hi > n {
				ev.fail("slice bounds out of range [%d:%d] with capacity %d", lo, hi, n)
			}
			return Bytes{x.B[lo:hi]}
		case Str:
			if hi < 0 {
				hi = len(x.S)
			}
			if lo < 0 || lo > hi || hi > n {
				ev.fail("slice bounds out of range [%d:%d] with length %d", lo, hi, n)
			}
			return Str{x.S[lo:hi]}
		}
	case *ast.SelectorExpr:
		x := ev.Eval(env, e.X)
		if p, ok := x.(Ptr); ok {
			if p.Target == nil {
				ev.fail("nil pointer dereference in selector .%s", e.Sel.Name)
			}
			x = p.Target.V
		}
		st, ok := x.(*Struct)
		if !ok {
			ev.fail("selector .%s on %T", e.Sel.Name, x)
		}
		f, ok := st.Fields[e.Sel.Name]
		if !ok {
			ev.fail("compile error: type %s has no field %s", st.Type, e.Sel.Name)
		}
		return f.V
	case *ast.FuncLit:
		return &Func{Lit: e, Env: env}
	case *ast.CompositeLit:
		return ev.compositeLit(env, e)
	case *ast.CallExpr:
		return ev.call(env, e)
	}
	ev.fail("unsupported expression %T", e)
	return nil
}

func (ev *Evaluator) zeroOf(t ast.Expr) Val {
	switch t := t.(type) {
	case *ast.Ident:
		if k, ok := kindOfName(t.Name); ok {
			return Int{K: k}
		}
		switch t.Name {
		case "string":
			return Str{}
		case "bool":
			return Bool{}
		}
		if decl, ok := ev.Types[t.Name]; ok {
			if st, ok := decl.(*ast.StructType); ok {
				s := &Struct{Type: t.Name, Fields: map[string]*Var{}}
				for _, f := range st.Fields.List {
					for _, n := range f.Names {
						s.Fields[n.Name] = &Var{V: ev.zeroOf(f.Type)}
					}
				}
				return s
			}
			return ev.zeroOf(decl)
		}
	case *ast.ArrayType:
		k, isInt := ev.typeKind(t.Elt)
		if t.Len == nil {
			if isInt && k == KUint8 {
				return Bytes{}
			}
			return Arr{K: k}
		}
		if _, ok := t.Len.(*ast.Ellipsis); ok {
			return Arr{K: k, IsArray: true}
		}
		n := int(symx.Concretize(int(ev.Eval(NewEnv(nil), t.Len).(Int).V)))
		if !isInt {
			ev.fail("unsupported array element type")
		}
		a := Arr{K: k, IsArray: true, E: make([]Int, n)}
		for i := range a.E {
			a.E[i] = Int{K: k}
		}
		return a
	case *ast.FuncType:
		return (*Func)(nil)
	case *ast.InterfaceType:
		return Nil{}
	case *ast.StarExpr:
		return Ptr{}
	}
	ev.fail("unsupported type %T for zero value", t)
	return nil
}

func (ev *Evaluator) compositeLit(env *Env, e *ast.CompositeLit) Val {
	switch t := e.Type.(type) {
	case *ast.ArrayType:
		k, ok := ev.typeKind(t.Elt)
		if !ok {
			if _, isFn := t.Elt.(*ast.FuncType); !isFn {
				ev.fail("unsupported composite literal element type")
			}
			l := List{IsArray: t.Len != nil}
			for _, el := range e.Elts {
				l.E = append(l.E, ev.Eval(env, el))
			}
			if t.Len != nil {
				if _, isEll := t.Len.(*ast.Ellipsis); !isEll {
					n := int(symx.Concretize(int(ev.Eval(env, t.Len).(Int).V)))
					if len(l.E) > n {
						ev.fail("compile error: array literal has %d elements, type has %d", len(l.E), n)
					}
					for len(l.E) < n {
						l.E = append(l.E, (*Func)(nil))
					}
				}
			}
			return l
		}
		elems := make([]Int, 0, len(e.Elts))
		for _, el := range e.Elts {
			v, ok := ev.Eval(env, el).(Int)
			if !ok {
				ev.fail("non-integer element in array literal")
			}
			elems = append(elems, ev.convInt(v, k, "array literal element"))
		}
		if t.Len == nil {
			if k == KUint8 {
				b := make([]byte, len(elems))
				for i, x := range elems {
					b[i] = byte(x.V)
				}
				return Bytes{b}
			}
			return Arr{E: elems, K: k}
		}
		if _, isEll := t.Len.(*ast.Ellipsis); !isEll {
			n := int(symx.Concretize(int(ev.Eval(env, t.Len).(Int).V)))
			if len(elems) > n {
				ev.fail("compile error: array literal has %d elements, type has %d", len(elems), n)
			}
			for len(elems) < n {
				elems = append(elems, Int{K: k})
			}
		}
		return Arr{E: elems, K: k, IsArray: true}
	case *ast.Ident:
		decl, ok := ev.Types[t.Name]
		if !ok {
			ev.fail("compile error: undefined type %s", t.Name)
		}
		st, ok := decl.(*ast.StructType)
		if !ok {
			ev.fail("composite literal of non-struct type %s", t.Name)
		}
		s := ev.zeroOf(t).(*Struct)
		seen := map[string]bool{}
		for _, el := range e.Elts {
			kv, ok := el.(*ast.KeyValueExpr)
			if !ok {
				ev.fail("unkeyed struct literal")
			}
			name := kv.Key.(*ast.Ident).Name
			f, ok := s.Fields[name]
			if !ok {
				ev.fail("compile error: unknown field %s in struct literal of type %s", name, t.Name)
			}
			if seen[name] {
				ev.fail("compile error: duplicate field name %s in struct literal", name)
			}
			seen[name] = true
			var ftype ast.Expr
			for _, fl := range st.Fields.List {
				for _, n := range fl.Names {
					if n.Name == name {
						ftype = fl.Type
					}
				}
			}
			f.V = ev.assignable(ev.Eval(env, kv.Value), ftype, "struct literal field "+name)
		}
		return s
	}
	ev.fail("unsupported composite literal type %T", e.Type)
	return nil
}

// assignable converts v for assignment to a location of (syntactic) type t.
func (ev *Evaluator) assignable(v Val, t ast.Expr, what string) Val {
	if t == nil {
		return v
	}
	if iv, ok := v.(Int); ok {
		k, isInt := ev.typeKind(t)
		if !isInt {
			if id, ok := t.(*ast.Ident); ok {
				if decl, ok := ev.Types[id.Name]; ok {
					return ev.assignable(v, decl, what)
				}
			}
			ev.fail("compile error: cannot use integer as %T in %s", t, what)
		}
		if iv.K == KUntyped {
			return ev.convInt(iv, k, what)
		}
		if iv.K != k {
			ev.fail("compile error: cannot use %s as %s in %s", iv.K, k, what)
		}
		return Int{V: iv.V, K: k}
	}
	// array types must agree in length
	if at, ok := t.(*ast.ArrayType); ok && at.Len != nil {
		if _, isEll := at.Len.(*ast.Ellipsis); !isEll {
			n := int(symx.Concretize(int(ev.Eval(NewEnv(nil), at.Len).(Int).V)))
			switch a := v.(type) {
			case Arr:
				if !a.IsArray || len(a.E) != n {
					ev.fail("compile error: cannot use array of length %d as [%d]T in %s", len(a.E), n, what)
				}
			case List:
				if !a.IsArray || len(a.E) != n {
					ev.fail("compile error: cannot use array of length %d as [%d]T in %s", len(a.E), n, what)
				}
			default:
				ev.fail("compile error: cannot use %T as array in %s", v, what)
			}
		}
	}
	return copyVal(v)
}

func (ev *Evaluator) call(env *Env, e *ast.CallExpr) Val {
	// (*[N]byte)(x): slice to array pointer conversion (panics when len(x) < N)
	if pe, ok := e.Fun.(*ast.ParenExpr); ok {
		if se, ok := pe.X.(*ast.StarExpr); ok {
			if at, ok := se.X.(*ast.ArrayType); ok && at.Len != nil && len(e.Args) == 1 {
				if k, isInt := ev.typeKind(at.Elt); isInt && k == KUint8 {
					b, ok := ev.Eval(env, e.Args[0]).(Bytes)
					if !ok {
						ev.fail("compile error: cannot convert %T to *[N]byte", ev.Eval(env, e.Args[0]))
					}
					n := int(symx.Concretize(int(ev.Eval(env, at.Len).(Int).V)))
					if len(b.B) < n {
						ev.fail("run-time panic: cannot convert slice with length %d to array or pointer to array with length %d", len(b.B), n)
					}
					a := Arr{K: KUint8, IsArray: true, E: make([]Int, n)}
					for i := 0; i < n; i++ {
						a.E[i] = Int{V: uint64(b.B[i]), K: KUint8}
					}
					return Ptr{&Var{V: a}}
				}
			}
		}
	}
	// conversion to an interface type, (interface{})(x) or any(x): the value itself
	{
		fun := e.Fun
		if pe, ok := fun.(*ast.ParenExpr); ok {
			fun = pe.X
		}
		_, isIface := fun.(*ast.InterfaceType)
		if id, ok := fun.(*ast.Ident); ok && id.Name == "any" && env.Lookup("any") == nil {
			isIface = true
		}
		if isIface && len(e.Args) == 1 {
			return ev.Eval(env, e.Args[0])
		}
	}
	// (T)(x) with a parenthesised type name, as ssa2ast writes conversions
	if pe, ok := e.Fun.(*ast.ParenExpr); ok {
		if id, ok := pe.X.(*ast.Ident); ok && env.Lookup(id.Name) == nil && len(e.Args) == 1 {
			switch id.Name {
			case "bool":
				if b, ok := ev.Eval(env, e.Args[0]).(Bool); ok {
					return b
				}
				ev.fail("compile error: conversion of non-boolean to bool")
			case "string":
				if x, ok := ev.Eval(env, e.Args[0]).(Str); ok {
					return x
				}
			}
			if _, isInt := kindOfName(id.Name); isInt || id.Name == "string" {
				return ev.call(env, &ast.CallExpr{Fun: id, Args: e.Args})
			}
		}
	}
	// conversions and builtins
	switch fn := e.Fun.(type) {
	case *ast.ArrayType: // []byte("...") or []byte(x)
		if fn.Len == nil {
			if k, ok := ev.typeKind(fn.Elt); ok && k == KInt32 && len(e.Args) == 1 {
				if x, ok := ev.Eval(env, e.Args[0]).(Str); ok { // []rune(s)
					a := Arr{K: KInt32}
					for _, r := range x.S {
						a.E = append(a.E, Int{V: norm(uint64(int64(r)), KInt32), K: KInt32})
					}
					return a
				}
			}
			if k, ok := ev.typeKind(fn.Elt); ok && k == KUint8 && len(e.Args) == 1 {
				if lit, ok := e.Args[0].(*ast.BasicLit); ok && lit.Kind == token.STRING {
					return Bytes{append([]byte(nil), ev.parseStringLit(lit.Value)...)}
				}
				switch x := ev.Eval(env, e.Args[0]).(type) {
				case Str:
					return Bytes{[]byte(x.S)}
				case Bytes:
					return x
				}
			}
		}
		ev.fail("unsupported conversion to array type")
	case *ast.Ident:
		if k, ok := kindOfName(fn.Name); ok && env.Lookup(fn.Name) == nil {
			if len(e.Args) != 1 {
				ev.fail("conversion with %d arguments", len(e.Args))
			}
			x, ok := ev.Eval(env, e.Args[0]).(Int)
			if !ok {
				ev.fail("conversion of non-integer to %s", fn.Name)
			}
			return ev.convInt(x, k, "conversion to "+fn.Name)
		}
		if env.Lookup(fn.Name) == nil {
			switch fn.Name {
			case "string":
				switch x := ev.Eval(env, e.Args[0]).(type) {
				case Bytes:
					return Str{string(x.B)}
				case Str:
					return x
				}
				ev.fail("unsupported string conversion")
			case "panic":
				panic(GoPanic{ev.Eval(env, e.Args[0])})
			case "recover":
				if fr := ev.deferring; fr != nil && fr.panicking != nil {
					v := fr.panicking.V
					fr.panicking, fr.recovered = nil, true
					return v
				}
				return Nil{}
			case "new":
				return Ptr{&Var{V: ev.zeroOf(e.Args[0])}}
			case "len":
				switch x := ev.Eval(env, e.Args[0]).(type) {
				case Bytes:
					return Int{V: uint64(len(x.B)), K: KInt}
				case Arr:
					return Int{V: uint64(len(x.E)), K: KInt, Const: x.IsArray}
				case Str:
					return Int{V: uint64(len(x.S)), K: KInt}
				}
				ev.fail("len of unsupported value")
			case "cap":
				if x, ok := ev.Eval(env, e.Args[0]).(Bytes); ok {
					return Int{V: uint64(cap(x.B)), K: KInt}
				}
				ev.fail("cap of unsupported value")
			case "make":
				at, ok := e.Args[0].(*ast.ArrayType)
				if !ok || at.Len != nil {
					ev.fail("unsupported make")
				}
				k, _ := ev.typeKind(at.Elt)
				n := int(symx.Concretize(int(ev.Eval(env, e.Args[1]).(Int).V)))
				c := n
				if len(e.Args) > 2 {
					c = int(symx.Concretize(int(ev.Eval(env, e.Args[2]).(Int).V)))
				}
				if n < 0 || c < n {
					ev.fail("make: len %d cap %d", n, c)
				}
				if k == KUint8 {
					return Bytes{make([]byte, n, c)}
				}
				a := Arr{K: k, E: make([]Int, n, c)}
				for i := range a.E {
					a.E[i] = Int{K: k}
				}
				return a
			case "append":
				base := ev.Eval(env, e.Args[0])
				switch b := base.(type) {
				case Bytes:
					out := b.B
					if e.Ellipsis != token.NoPos {
						if len(e.Args) != 2 {
							ev.fail("append with ... and %d arguments", len(e.Args))
						}
						switch x := ev.Eval(env, e.Args[1]).(type) {
						case Bytes:
							out = append(out, x.B...)
						case Str:
							out = append(out, x.S...)
						default:
							ev.fail("append of unsupported spread value")
						}
						return Bytes{out}
					}
					for _, a := range e.Args[1:] {
						x, ok := ev.Eval(env, a).(Int)
						if !ok {
							ev.fail("append of non-integer to []byte")
						}
						x = ev.assignable(x, ast.NewIdent("byte"), "append argument").(Int)
						out = append(out, byte(x.V))
					}
					return Bytes{out}
				case Arr:
					out := b.E
					for _, a := range e.Args[1:] {
						x := ev.Eval(env, a).(Int)
						out = append(out, ev.convInt(x, b.K, "append argument"))
					}
					return Arr{E: out, K: b.K}
				}
				ev.fail("append to unsupported value")
			case "copy":
				dst, ok1 := ev.Eval(env, e.Args[0]).(Bytes)
				if !ok1 {
					ev.fail("copy to unsupported value")
				}
				switch src := ev.Eval(env, e.Args[1]).(type) {
				case Bytes:
					return Int{V: uint64(copy(dst.B, src.B)), K: KInt}
				case Str:
					return Int{V: uint64(copy(dst.B, src.S)), K: KInt}
				}
				ev.fail("copy from unsupported value")
			}
		}
	}
	// call through a table of functions with a symbolic index: evaluate every
	// candidate and merge the integer results instead of forking
	if ix, ok := e.Fun.(*ast.IndexExpr); ok {
		if tbl, ok := ev.Eval(env, ix.X).(List); ok {
			iv, isInt := ev.Eval(env, ix.Index).(Int)
			if isInt && !symx.IsConcrete(iv.V) && len(tbl.E) > 0 {
				ev.asIndex(iv, len(tbl.E), "function table index")
				args := make([]Val, len(e.Args))
				for i, a := range e.Args {
					args[i] = ev.Eval(env, a)
				}
				var merged Int
				for k := len(tbl.E) - 1; k >= 0; k-- {
					f, ok := tbl.E[k].(*Func)
					if !ok || f == nil {
						ev.fail("call of nil function in table")
					}
					res := ev.CallFunc(f, args)
					if len(res) != 1 {
						ev.fail("table function must return one value")
					}
					ri, ok := res[0].(Int)
					if !ok {
						ev.fail("table function must return an integer")
					}
					if k == len(tbl.E)-1 {
						merged = ri
					} else {
						merged.V = uint64(symx.Ite(iv.V == uint64(k), int(ri.V), int(merged.V)))
					}
				}
				merged.Const = false
				return merged
			}
		}
	}
	// function call
	fv := ev.Eval(env, e.Fun)
	f, ok := fv.(*Func)
	if !ok || f == nil {
		ev.fail("call of non-function or nil function (%T)", fv)
	}
	args := make([]Val, len(e.Args))
	for i, a := range e.Args {
		args[i] = ev.Eval(env, a)
	}
	res := ev.CallFunc(f, args)
	if len(res) == 0 {
		return nil
	}
	return res[0]
}

// CallFunc calls a function value with evaluated arguments.
func (ev *Evaluator) CallFunc(f *Func, args []Val) []Val {
	fenv := NewEnv(f.Env)
	i := 0
	if f.Lit.Type.Params != nil {
		for _, p := range f.Lit.Type.Params.List {
			names := p.Names
			if len(names) == 0 {
				names = []*ast.Ident{ast.NewIdent("_")}
			}
			for _, n := range names {
				if i >= len(args) {
					ev.fail("compile error: not enough arguments in call")
				}
				fenv.Define(n.Name, ev.assignable(args[i], p.Type, "argument "+n.Name))
				i++
			}
		}
	}
	if i != len(args) {
		ev.fail("compile error: too many arguments in call")
	}
	// named results are variables of the function
	var named []*Var
	if f.Lit.Type.Results != nil {
		for _, r := range f.Lit.Type.Results.List {
			for _, n := range r.Names {
				if n.Name == "_" {
					named = append(named, &Var{V: ev.zeroOf(r.Type)})
				} else {
					named = append(named, fenv.Define(n.Name, ev.zeroOf(r.Type)))
				}
			}
		}
	}
	fr := &callFrame{}
	ev.frames = append(ev.frames, fr)
	var ctl ctl
	var res []Val
	func() {
		defer func() {
			if r := recover(); r != nil {
				gp, isPanic := r.(GoPanic)
				if !isPanic {
					ev.frames = ev.frames[:len(ev.frames)-1]
					panic(r)
				}
				fr.panicking = &gp
			}
		}()
		ctl, res = ev.execBlock(fenv, f.Lit.Body)
	}()
	if fr.panicking == nil && ctl == ctlReturn && len(named) > 0 && len(res) == len(named) {
		// return x, y assigns the named results before the deferred calls run
		for i := range named {
			named[i].V = res[i]
		}
	}
	// deferred calls, last in first out; a panic raised by one replaces the current one
	saved := ev.deferring
	for i := len(fr.defers) - 1; i >= 0; i-- {
		d := fr.defers[i]
		ev.deferring = fr
		func() {
			defer func() {
				if r := recover(); r != nil {
					gp, isPanic := r.(GoPanic)
					if !isPanic {
						ev.deferring = saved
						ev.frames = ev.frames[:len(ev.frames)-1]
						panic(r)
					}
					fr.panicking, fr.recovered = &gp, false
				}
			}()
			d()
		}()
	}
	ev.deferring = saved
	ev.frames = ev.frames[:len(ev.frames)-1]
	if fr.panicking != nil {
		panic(*fr.panicking)
	}
	if fr.recovered {
		// a recovered function returns whatever its result variables hold
		ctl, res = ctlReturn, nil
		if len(named) == 0 && f.Lit.Type.Results != nil {
			for _, r := range f.Lit.Type.Results.List {
				res = append(res, ev.zeroOf(r.Type))
			}
		}
	}
	if len(named) > 0 && (ctl == ctlReturn || fr.recovered) && (len(res) == 0 || len(fr.defers) > 0 || fr.recovered) {
		res = make([]Val, len(named))
		for i := range named {
			res[i] = named[i].V
		}
	}
	if ctl != ctlReturn {
		if f.Lit.Type.Results != nil && len(f.Lit.Type.Results.List) > 0 {
			ev.fail("compile error: missing return")
		}
		return nil
	}
	if f.Lit.Type.Results != nil {
		j := 0
		for _, r := range f.Lit.Type.Results.List {
			cnt := len(r.Names)
			if cnt == 0 {
				cnt = 1
			}
			for k := 0; k < cnt; k++ {
				if j < len(res) {
					res[j] = ev.assignable(res[j], r.Type, "result")
				}
				j++
			}
		}
		if j != len(res) {
			ev.fail("compile error: wrong number of results")
		}
	}
	return res
}

// ---------------------------------------------------------------------------
// statements

type ctl int

const (
	ctlNone ctl = iota
	ctlBreak
	ctlContinue
	ctlReturn
	ctlGoto
)

func (ev *Evaluator) execBlock(env *Env, b *ast.BlockStmt) (ctl, []Val) {
	inner := NewEnv(env)
	for i := 0; i < len(b.List); {
		c, r := ev.Exec(inner, b.List[i])
		if c == ctlGoto {
			// a goto leaves this block unless one of its statements carries the label
			target := -1
			for j, st := range b.List {
				if ls, ok := st.(*ast.LabeledStmt); ok && ls.Label.Name == ev.gotoLabel {
					target = j
				}
			}
			if target < 0 {
				return c, r
			}
			i = target
			continue
		}
		if c != ctlNone {
			return c, r
		}
		i++
	}
	return ctlNone, nil
}

// lvalue resolves the operands of an assignable expression (phase 1 of an
// assignment) and returns a setter (phase 2).
func (ev *Evaluator) lvalue(env *Env, e ast.Expr) (get func() Val, set func(Val)) {
	switch e := e.(type) {
	case *ast.Ident:
		if e.Name == "_" {
			return func() Val { return nil }, func(Val) {}
		}
		v := env.Lookup(e.Name)
		if v == nil {
			ev.fail("compile error: undefined: %s", e.Name)
		}
		return func() Val { return v.V }, func(x Val) {
			if old, ok := v.V.(Int); ok {
				xi, ok := x.(Int)
				if !ok {
					ev.fail("compile error: assigning %T to integer variable %s", x, e.Name)
				}
				if xi.K == KUntyped {
					xi = ev.convInt(xi, old.K, "assignment to "+e.Name)
				} else if xi.K != old.K {
					ev.fail("compile error: cannot assign %s to %s variable %s", xi.K, old.K, e.Name)
				}
				v.V = Int{V: xi.V, K: old.K}
				return
			}
			v.V = copyVal(x)
		}
	case *ast.IndexExpr:
		x := ev.Eval(env, e.X)
		if p, ok := x.(Ptr); ok {
			x = p.Target.V
		}
		iv := ev.Eval(env, e.Index)
		switch x := x.(type) {
		case Bytes:
			i := ev.asIndex(iv, len(x.B), "index assignment")
			return func() Val { return Int{V: uint64(x.B[i]), K: KUint8} }, func(v Val) {
				vi, ok := v.(Int)
				if !ok {
					ev.fail("assigning non-integer to byte element")
				}
				vi = ev.assignable(vi, ast.NewIdent("byte"), "element assignment").(Int)
				x.B[i] = byte(vi.V)
			}
		case Arr:
			i := ev.asIndex(iv, len(x.E), "index assignment")
			return func() Val { return x.E[i] }, func(v Val) {
				x.E[i] = ev.convIntAssign(v, x.K)
			}
		}
		ev.fail("cannot assign to index of %T", x)
	case *ast.StarExpr:
		p, ok := ev.Eval(env, e.X).(Ptr)
		if !ok || p.Target == nil {
			ev.fail("assignment through nil pointer")
		}
		return func() Val { return p.Target.V }, func(v Val) { p.Target.V = copyVal(v) }
	case *ast.ParenExpr:
		return ev.lvalue(env, e.X)
	}
	ev.fail("unsupported assignment target %T", e)
	return nil, nil
}

func (ev *Evaluator) convIntAssign(v Val, k Kind) Int {
	vi, ok := v.(Int)
	if !ok {
		ev.fail("assigning non-integer to integer element")
	}
	if vi.K == KUntyped {
		return ev.convInt(vi, k, "element assignment")
	}
	if vi.K != k {
		ev.fail("compile error: cannot assign %s to %s element", vi.K, k)
	}
	return Int{V: vi.V, K: k}
}

var assignOps = map[token.Token]token.Token{
	token.ADD_ASSIGN: token.ADD, token.SUB_ASSIGN: token.SUB, token.MUL_ASSIGN: token.MUL, token.XOR_ASSIGN: token.XOR,
	token.AND_ASSIGN: token.AND, token.OR_ASSIGN: token.OR, token.SHL_ASSIGN: token.SHL, token.SHR_ASSIGN: token.SHR,
	token.REM_ASSIGN: token.REM, token.QUO_ASSIGN: token.QUO, token.AND_NOT_ASSIGN: token.AND_NOT,
}

// defaultType gives an untyped constant its default type on definition.
func defaultType(v Val) Val {
	if iv, ok := v.(Int); ok {
		if iv.K == KUntyped {
			return Int{V: iv.V, K: KInt}
		}
		return Int{V: iv.V, K: iv.K}
	}
	return copyVal(v)
}

func (ev *Evaluator) Exec(env *Env, s ast.Stmt) (ctl, []Val) {
	ev.tick()
	switch s := s.(type) {
	case *ast.BlockStmt:
		return ev.execBlock(env, s)
	case *ast.ExprStmt:
		ev.Eval(env, s.X)
	case *ast.EmptyStmt:
	case *ast.DeclStmt:
		gd := s.Decl.(*ast.GenDecl)
		ev.Decl(env, gd)
	case *ast.AssignStmt:
		switch {
		case s.Tok == token.DEFINE:
			if len(s.Lhs) != len(s.Rhs) {
				ev.fail("unsupported multi-value definition")
			}
			vals := make([]Val, len(s.Rhs))
			for i, r := range s.Rhs {
				vals[i] = ev.Eval(env, r)
			}
			for i, l := range s.Lhs {
				name := l.(*ast.Ident).Name
				if _, exists := env.vars[name]; exists && len(s.Lhs) == 1 {
					ev.fail("compile error: no new variables on left side of := (%s)", name)
				}
				if name != "_" {
					env.Define(name, defaultType(vals[i]))
				}
			}
		case s.Tok == token.ASSIGN && len(s.Rhs) == 1 && len(s.Lhs) > 1:
			// x, y = f(): the results of one call
			ce, isCall := s.Rhs[0].(*ast.CallExpr)
			if !isCall {
				ev.fail("unsupported multi-value assignment")
			}
			sets := make([]func(Val), len(s.Lhs))
			for i, l := range s.Lhs {
				_, sets[i] = ev.lvalue(env, l)
			}
			fv, ok := ev.Eval(env, ce.Fun).(*Func)
			if !ok || fv == nil {
				ev.fail("unsupported multi-value call of a non-function")
			}
			args := make([]Val, len(ce.Args))
			for i, a := range ce.Args {
				args[i] = ev.Eval(env, a)
			}
			res := ev.CallFunc(fv, args)
			if len(res) != len(sets) {
				ev.fail("compile error: assignment mismatch: %d variables but the call returns %d values", len(sets), len(res))
			}
			for i := range sets {
				sets[i](res[i])
			}
		case s.Tok == token.ASSIGN:
			if len(s.Lhs) != len(s.Rhs) {
				ev.fail("unsupported multi-value assignment")
			}
			// phase 1: operands of index expressions on the left, then the right-hand sides
			sets := make([]func(Val), len(s.Lhs))
			for i, l := range s.Lhs {
				_, sets[i] = ev.lvalue(env, l)
			}
			vals := make([]Val, len(s.Rhs))
			for i, r := range s.Rhs {
				vals[i] = ev.Eval(env, r)
			}
			// phase 2: assignments left to right
			for i := range sets {
				sets[i](vals[i])
			}
		default:
			op, ok := assignOps[s.Tok]
			if !ok || len(s.Lhs) != 1 {
				ev.fail("unsupported assignment operator %s", s.Tok)
			}
			get, set := ev.lvalue(env, s.Lhs[0])
			cur := get()
			set(ev.binary(op, cur, ev.Eval(env, s.Rhs[0]), "assignment operation"))
		}
	case *ast.IncDecStmt:
		get, set := ev.lvalue(env, s.X)
		op := token.ADD
		if s.Tok == token.DEC {
			op = token.SUB
		}
		set(ev.binary(op, get(), Int{V: 1, K: KUntyped, Const: true}, "inc/dec"))
	case *ast.ReturnStmt:
		res := make([]Val, len(s.Results))
		for i, r := range s.Results {
			res[i] = ev.Eval(env, r)
		}
		return ctlReturn, res
	case *ast.LabeledStmt:
		return ev.Exec(env, s.Stmt)
	case *ast.DeferStmt:
		// function value and arguments are evaluated now, the call happens at function exit
		fv, ok := ev.Eval(env, s.Call.Fun).(*Func)
		if !ok || fv == nil {
			ev.fail("unsupported deferred call of a non-function")
		}
		args := make([]Val, len(s.Call.Args))
		for i, a := range s.Call.Args {
			args[i] = ev.Eval(env, a)
		}
		if len(ev.frames) == 0 {
			ev.fail("unsupported defer outside a function")
		}
		fr := ev.frames[len(ev.frames)-1]
		fr.defers = append(fr.defers, func() { ev.CallFunc(fv, args) })
	case *ast.BranchStmt:
		if s.Tok == token.GOTO && s.Label != nil {
			ev.gotoLabel = s.Label.Name
			return ctlGoto, nil
		}
		if s.Label != nil {
			ev.fail("unsupported labelled branch")
		}
		switch s.Tok {
		case token.BREAK:
			return ctlBreak, nil
		case token.CONTINUE:
			return ctlContinue, nil
		}
		ev.fail("unsupported branch %s", s.Tok)
	case *ast.IfStmt:
		inner := NewEnv(env)
		if s.Init != nil {
			ev.Exec(inner, s.Init)
		}
		c, ok := ev.Eval(inner, s.Cond).(Bool)
		if !ok {
			ev.fail("non-boolean condition")
		}
		if c.B {
			return ev.execBlock(inner, s.Body)
		} else if s.Else != nil {
			return ev.Exec(inner, s.Else)
		}
	case *ast.ForStmt:
		inner := NewEnv(env)
		if s.Init != nil {
			ev.Exec(inner, s.Init)
		}
		for {
			ev.tick()
			if s.Cond != nil {
				c, ok := ev.Eval(inner, s.Cond).(Bool)
				if !ok {
					ev.fail("non-boolean loop condition")
				}
				if !c.B {
					break
				}
			}
			c, r := ev.execBlock(inner, s.Body)
			if c == ctlBreak {
				break
			}
			if c == ctlReturn {
				return c, r
			}
			if s.Post != nil {
				ev.Exec(inner, s.Post)
			}
		}
	case *ast.RangeStmt:
		x := ev.Eval(env, s.X)
		if p, ok := x.(Ptr); ok {
			x = p.Target.V
		}
		n := 0
		elem := func(i int) Val { return nil }
		switch x := x.(type) {
		case Bytes:
			n = len(x.B)
			b := x.B
			elem = func(i int) Val { return Int{V: uint64(b[i]), K: KUint8} }
		case Arr:
			e := x.E
			if x.IsArray {
				e = append([]Int(nil), e...) // range over an array copies it
			}
			n = len(e)
			elem = func(i int) Val { return e[i] }
		case Str:
			// Go's own range over the string decodes it (the engine forks on the byte classes)
			for off, r := range x.S {
				ev.tick()
				inner := NewEnv(env)
				vals := []Val{Int{V: uint64(off), K: KInt}, Int{V: norm(uint64(int64(r)), KInt32), K: KInt32}}
				for k, e := range []ast.Expr{s.Key, s.Value} {
					if e == nil {
						continue
					}
					if s.Tok == token.DEFINE {
						if id := e.(*ast.Ident); id.Name != "_" {
							inner.Define(id.Name, vals[k])
						}
						continue
					}
					_, set := ev.lvalue(env, e)
					set(vals[k])
				}
				c, r := ev.execBlock(inner, s.Body)
				if c == ctlBreak {
					break
				}
				if c == ctlReturn || c == ctlGoto {
					return c, r
				}
			}
			return ctlNone, nil
		default:
			ev.fail("range over %T", x)
		}
		for i := 0; i < n; i++ {
			ev.tick()
			inner := NewEnv(env)
			bind := func(e ast.Expr, v Val) {
				if e == nil {
					return
				}
				if s.Tok == token.DEFINE {
					if id := e.(*ast.Ident); id.Name != "_" {
						inner.Define(id.Name, v)
					}
					return
				}
				_, set := ev.lvalue(env, e)
				set(v)
			}
			bind(s.Key, Int{V: uint64(i), K: KInt})
			bind(s.Value, elem(i))
			c, r := ev.execBlock(inner, s.Body)
			if c == ctlBreak {
				break
			}
			if c == ctlReturn {
				return c, r
			}
		}
	case *ast.SwitchStmt:
		inner := NewEnv(env)
		if s.Init != nil {
			ev.Exec(inner, s.Init)
		}
		var tag Val = Bool{true}
		if s.Tag != nil {
			tag = ev.Eval(inner, s.Tag)
		}
		// compile-time rule: constant case labels must be distinct
		var labels []Int
		for _, cc := range s.Body.List {
			for _, le := range cc.(*ast.CaseClause).List {
				if lv, ok := ev.Eval(inner, le).(Int); ok && lv.Const {
					for _, prev := range labels {
						symx.Assert(prev.V != lv.V, "compile error: duplicate case in switch")
					}
					labels = append(labels, lv)
				}
			}
		}
		var chosen, deflt *ast.CaseClause
	search:
		for _, cc := range s.Body.List {
			clause := cc.(*ast.CaseClause)
			if clause.List == nil {
				deflt = clause
				continue
			}
			for _, le := range clause.List {
				lv := ev.Eval(inner, le)
				eq, ok := ev.binary(token.EQL, tag, lv, "switch case").(Bool)
				if !ok {
					ev.fail("unsupported switch comparison")
				}
				if eq.B {
					chosen = clause
					break search
				}
			}
		}
		if chosen == nil {
			chosen = deflt
		}
		if chosen != nil {
			cenv := NewEnv(inner)
			for _, st := range chosen.Body {
				if bs, ok := st.(*ast.BranchStmt); ok && bs.Tok == token.FALLTHROUGH {
					ev.fail("fallthrough unsupported")
				}
				c, r := ev.Exec(cenv, st)
				if c == ctlBreak {
					return ctlNone, nil
				}
				if c != ctlNone {
					return c, r
				}
			}
		}
	default:
		ev.fail("unsupported statement %T", s)
	}
	return ctlNone, nil
}

// Decl executes a type or var declaration (file level or in a function).
func (ev *Evaluator) Decl(env *Env, gd *ast.GenDecl) {
	switch gd.Tok {
	case token.TYPE:
		for _, sp := range gd.Specs {
			ts := sp.(*ast.TypeSpec)
			if _, dup := ev.Types[ts.Name.Name]; dup {
				ev.fail("compile error: type %s redeclared", ts.Name.Name)
			}
			ev.Types[ts.Name.Name] = ts.Type
		}
	case token.VAR, token.CONST:
		for _, sp := range gd.Specs {
			vs := sp.(*ast.ValueSpec)
			for i, n := range vs.Names {
				var v Val
				if i < len(vs.Values) {
					v = ev.Eval(env, vs.Values[i])
					if vs.Type != nil {
						v = ev.assignable(v, vs.Type, "declaration of "+n.Name)
					} else {
						v = defaultType(v)
					}
				} else {
					if vs.Type == nil {
						ev.fail("declaration of %s without type or value", n.Name)
					}
					v = ev.zeroOf(vs.Type)
				}
				if _, dup := env.vars[n.Name]; dup {
					ev.fail("compile error: %s redeclared in this block", n.Name)
				}
				if n.Name != "_" {
					env.Define(n.Name, v)
				}
			}
		}
	default:
		ev.fail("unsupported declaration %s", gd.Tok)
	}
}
