"""Properties not (yet) claimed, with the reason. Entries for properties that
gain a check in checks.py are ignored by mkmanifest.py."""

PENDING = "its encodable kernels are string/type functions the engine could execute, but no harness was built in this revision of /verif; no claim is made"

NOT_APPLICABLE = {
    "C01": PENDING, "C02": PENDING, "C03": PENDING, "C04": PENDING, "C05": PENDING, "C06": PENDING,
    "C07": "(the third cache, GARBLE_CACHE/tool, is exercised by C18's harness for deleted entries; a linker truncated behind an intact stamp cannot be told from a good one without a content hash) about bytes on disk in two caches after deletion/truncation; whether a damaged entry is a miss is decided by rogpeppe/go-internal/cache and cmd/go, garble's side is three `err != nil` branches with no arithmetic - nothing to encode symbolically beyond a file-system model that would be the whole claim",
    "C08": PENDING,
    "C09": "'does not appear verbatim' is probabilistic in the seed: a for-all-draws query is false on correct code (the solver exhibits degenerate keys such as an all-zero XOR key), and the rest is a scan of the linked binary",
    "C10": "concerns stderr and exit status of a process running the patched Go runtime; garble's part is a syntactic rewrite of runtime sources whose meaning only exists after compiling and running them",
    "C11": PENDING, "C12": PENDING, "C13": PENDING, "C14": PENDING, "C15": PENDING,
    "C17": "interleavings are between OS processes synchronised by the kernel's flock, cmd/go's cache and MkdirTemp; encoding them means modelling those, not executing garble's code",
    "C18": "only the linker stamp protocol would be encodable, and only against a file-system model with partial writes that would be the whole claim; everything else in the statement is OS processes and caches outside garble's code", "C19": PENDING, "C20": PENDING,
}
