"""Registry of the solver-based checks: which harnesses decide which property,
with which bounds. Only bounds that ran clean on the unchanged tree are listed."""

W = {"workers": 14}
LIT = "mvdan.cc/garble/internal/literals"
CF = "mvdan.cc/garble/internal/ctrlflow"

import gen

CHECKS = {
    "C20": {
        "level": "model_checking",
        "level_text": "bounded symbolic model checking of garble's real command-line functions (splitFlagsFromArgs, filterForwardBuildFlags, rxGarbleFlag through the real regexp engine) against the go command's documented flag tables regenerated from `go help` on every run: every documented flag in every spelling with symbolic values and package arguments, plus fully symbolic short vectors against a reference splitter",
        "level_note": "trusted: gosx encoder (witnesses replayed natively each run), z3 5.1, the parse of `go help build|testflag|test` into (name, boolean?, build?) tables, the 25-line reference splitter in harness/root/c20.go; bounds: values <= 1 byte (quick) / 2 bytes (thorough), <= 3 arguments fully symbolic",
        "claim": "flag/argument split, forwarding filter and misplaced-garble-flag detection agree with the go command's documented flags",
        "opts": dict(W),
        "generate": [gen.go_doc_flags],
        "runs": [
            {"harness": "H_C20_split_each", "reach": ["split"], "bound_quick": "all documented flags x 4 spellings; value 0..1 symbolic bytes; 0..1 package args of 1 byte", "bound_thorough": "value 0..2 bytes; 0..2 package args of 1..3 bytes"},
            {"harness": "H_C20_split_vectors", "reach": ["split"], "bound_quick": "0..2 flags from 6 class representatives x 3 spellings, 1-byte values, 0..1 package args", "bound_thorough": "0..3 flags from 10 representatives, 1..2-byte values, 0..2 package args"},
            {"harness": "H_C20_split_symbolic", "reach": ["split"], "bound_quick": "1..2 fully symbolic arguments of 1..3 bytes (single-dash)", "bound_thorough": "1..3 arguments"},
            {"harness": "H_C20_forward", "reach": ["forward"], "bound_quick": "1 documented flag x 3 spellings, 1-byte value", "bound_thorough": "1..2 flags, 1..2-byte values"},
            {"harness": "H_C20_reject_unknown", "reach": ["reject"], "bound": "every documented flag x 3 spellings, 1..2-byte values"},
            {"harness": "H_C20_garbleflag_values", "reach": ["rx"], "bound": "10 concrete arguments that contain a garble flag name without being one"},
            {"harness": "H_C20_garbleflag_positive", "reach": ["rx"], "bound": "5 garble flags x {-,--} x {bare, =value of 0..2 symbolic bytes}, through the real regexp engine"},
        ],
        "outside": ["-args", "-C ordering", "what the go command does with the arguments", "toolexecCmd's assembly of the nested go command (I/O bound)", "cmdgoQuotedSplit/Join"],
    },
    "C03": {
        "level": "model_checking",
        "level_text": "2-safety by bounded symbolic execution: garble's generators are run twice in one harness on the same symbolic inputs with the same seeded draw sequence (the second run reuses the first run's draw terms) while the process-global random source returns fresh values each time; the two printed trees must be the same code, with symbolic literals compared by the solver. Also purity of the name hash across interleaved users of the shared hasher and buffers",
        "level_note": "trusted: gosx encoder, z3 5.1, go/printer executed by the engine; bounds: data of 1..2 (thorough 3) bytes, hardening dispatchers of 1..2 edges, no rejected keys; map-iteration dependence in ssa2ast/trash generation (internal/ssa2ast/func.go, internal/ctrlflow/trash.go) is outside this check (it needs go/ssa objects built inside the engine)",
        "claim": "the literal obfuscators, their helpers and both dispatcher hardenings emit the same code for the same seeded draws; the name hash is a pure function",
        "opts": dict(W, second="cvc5"),
        "runs": [
            {"harness": "H_C03_hash_pure", "uf": True, "reach": ["twice"], "bound": "salts of 1..2 bytes, identifiers of 1..2 bytes, three kinds of interleaved hashing"},
            {"harness": "H_C03_literals_deterministic", "pkg": LIT, "reach": ["twice"], "bound_quick": "5 obfuscators + 2 helpers, data of 1..2 bytes", "bound_thorough": "1..3 bytes"},
            {"harness": "H_C03_hardening_deterministic", "pkg": CF, "stubbed": True, "reach": ["twice"], "bound": "xor and delegate-table hardening, 1..2 dispatcher edges"},
        ],
        "outside": ["the go command, compiler, linker, clock, TMPDIR, -p", "seeding of the generator in transformCompile", "map iteration in ssa2ast.convertToStmts and the trash generator (known hazard per the property text)", "reflection analysis order (C08)"],
    },
    "C05": {
        "level": "model_checking",
        "level_text": "bounded symbolic model checking of the real literal generators (internal/literals): every generator is run on symbolic data bytes, symbolic key values and symbolic random draws; the emitted go/ast tree is evaluated by a harness-side evaluator (symxeval, executed by the same engine) and the solver shows the result cannot differ from the original bytes. Composition is by lemmas: L1/L2 prove the contracts of byteLitWithExtKey and dataToByteSliceWithExtKeys, which the obfuscator harnesses then assume (stubs); L3-L7 prove each obfuscator's contract, which the wrapper harnesses (L8) assume; L9 proves the proxy dispatcher's contract",
        "level_note": "trusted: gosx encoder (witnesses replayed natively), z3 5.1 with cvc5 as fallback, the symxeval evaluator as the semantics of the emitted Go subset (it also enforces constant-fit, type-match and distinct-case compile rules), the written induction argument that glues swap steps; bounds per harness are listed in the evidence (sizes, draw bounds); Float32 draws explored at their two extremes only",
        "claim": "every emitted decode tree evaluates to the bytes the generator was given, within the listed sizes and draw bounds",
        "opts": dict(W, second="cvc5"),
        "runs": [
            {"harness": "H_C05_L1_byteLit", "pkg": LIT, "reach": ["generated"], "bound": "1..2 keys x 4 widths, all probabilities, all operators and shifts"},
            {"harness": "H_C05_L2_extKeySlice", "pkg": LIT, "reach": ["generated"], "bound_quick": "n in {1,2,8}; 2 key operations (count draw bounded); key widths {8,64}", "bound_thorough": "n in {1,2,3,4,8,16}; 2..3 operations"},
            {"harness": "H_C05_L3_simple", "pkg": LIT, "stubbed": True, "reach": ["generated"], "bound_quick": "n in {1,8}", "bound_thorough": "n in {1,2,8,64}"},
            {"harness": "H_C05_L4a_swap_full", "pkg": LIT, "stubbed": True, "reach": ["generated"], "bound_quick": "n in {1,2} (all swap counts)", "bound_thorough": "n in {1,2,3}"},
            {"harness": "H_C05_L4b_swap_steps", "pkg": LIT, "stubbed": True, "reach": ["generated"], "bound_quick": "n=8, 1 swap step from an arbitrary state", "bound_thorough": "n in {8,16,32}, 1..2 steps"},
            {"harness": "H_C05_L4c_swapcount", "pkg": LIT, "reach": ["generated"], "bound": "n symbolic in [1,2055]"},
            {"harness": "H_C05_L5_split", "pkg": LIT, "stubbed": True, "reach": ["generated"], "bound_quick": "n in {1,2,3}; symbolic permutation of case indexes; statement shuffles of 2 free, larger shuffles restricted to one order", "bound_thorough": "n in {1,2,3,4,8}"},
            {"harness": "H_C05_L5b_chunks", "pkg": LIT, "reach": ["generated"], "bound_quick": "n in {5,9}", "bound_thorough": "n in {5,9,12,13}"},
            {"harness": "H_C05_L6b_shuffle_big", "pkg": LIT, "stubbed": True, "reach": ["generated"], "bound": "n=129 (shuffled buffer of 258 entries); identity permutation, 2-byte index key; data, operators, index keys symbolic"},
            {"harness": "H_C05_L6_shuffle", "pkg": LIT, "stubbed": True, "reach": ["generated"], "bound_quick": "n in {1,2,3}", "bound_thorough": "n in {1,2,3,4,8}"},
            {"harness": "H_C05_L7_seed", "pkg": LIT, "stubbed": True, "reach": ["generated"], "bound_quick": "n in {1,2,8}", "bound_thorough": "n in {1,2,8,32}"},
            {"harness": "H_C05_L8_string", "pkg": LIT, "stubbed": True, "reach": ["generated"], "bound_quick": "n=8; all junk lengths and split indexes; 2 keys of widths {8,16}", "bound_thorough": "n in {8,9,16}; all widths"},
            {"harness": "H_C05_L8_bytes", "pkg": LIT, "stubbed": True, "reach": ["generated"], "bound": "[]byte / [n]byte x value / pointer; n=8 (thorough 8,9)"},
            {"harness": "H_C05_L9_proxy", "pkg": LIT, "reach": ["generated"], "bound": "4 proxy structs, all pointer-ness and tree shapes, 2 hidden values in any struct; junk minimal, shuffles one order"},
            {"harness": "H_C05_L10_pick", "pkg": LIT, "reach": ["generated"], "bound": "size symbolic in [0,4096]"},
        ],
        "outside": ["operation counts above the draw bound (4..11 key operations per slice)", "sizes above the listed ones (the swap induction is a written argument)", "that the Go compiler implements the emitted subset as symxeval does", "literals.Obfuscate's AST traversal (which expressions are rewritten)", "-ldflags=-X exclusion"],
    },
    "C06": {
        "level": "model_checking",
        "level_text": "bounded symbolic model checking of the real addGarbleToHash/appendFlags and of the derived cache-ID functions: two symbolic configurations are hashed and the solver shows that equal keys force equal configurations (sha256 as an uninterpreted, collision-free function), i.e. no output-affecting input is missing from or ambiguous in the key",
        "level_note": "trusted: gosx encoder (witnesses replayed natively), z3 5.1; assumption: sha256 is collision free; GOGARBLE restricted to printable ASCII without quote/backslash of lengths {0,1,2,8} (thorough adds 12), binary/tool IDs 2 symbolic bytes, seed 8 bytes",
        "claim": "garble's contribution to cmd/go's action IDs and its own cache IDs is injective in garble's output-affecting inputs",
        "opts": dict(W),
        "runs": [
            {"harness": "H_C06_key_injective", "uf": True, "reach": ["hashed"], "bound_quick": "2 configurations: GOGARBLE len in {0,1,2,8}, -literals, -tiny, seed absent/8 bytes; 2-byte IDs", "bound_thorough": "adds len 12 and controlflow on/off"},
            {"harness": "H_C06_key_ignores_debug", "uf": True, "reach": ["hashed"], "bound": "all configurations of the quick shape"},
            {"harness": "H_C06_cache_kinds", "uf": True, "reach": ["hashed"], "bound": "arbitrary 32-byte garble action IDs"},
        ],
        "outside": ["cmd/go's use of the tool ID and GOCACHE", "-tags/-ldflags/source edits (covered by cmd/go's action IDs)", "-ldflags seen by -literals at compile time (acknowledged risk, transformer.go:45-57)", "alterToolVersion's exec of the real tool", "linker version stamp (internal/linker)"],
    },
    "C11": {
        "level": "model_checking",
        "level_text": "bounded symbolic model checking of the key material of control-flow flattening: the real xorHardening.Apply / delegateTableHardening.Apply / generateKeys run on symbolic Int31, Read, Perm and Intn draws, the emitted declaration, prologue and per-edge expressions are evaluated by symxeval, and the solver shows that every stored key equals its own compare key, differs from every other and is never zero; the trash-block guard of randomAlwaysFalseCond is shown false for all draws; directive integers are shown bounded",
        "level_note": "trusted: gosx encoder, z3 5.1 (cvc5 fallback), symxeval as the semantics of the emitted Go; bounds: dispatchers of 1..3 (thorough 1..5) edges, at most one rejected key per run (draw budget), process-global draws fixed to their minimum (their nondeterminism is C03's subject); the SSA rewriting itself (flattening, splitting, junk, trash insertion, ssa2ast conversion) is outside this check",
        "claim": "dispatcher keys after hardening are consistent, pairwise distinct and non-zero; trash blocks are unreachable by their guard; directive integers are bounded",
        "opts": dict(W, second="cvc5"),
        "runs": [
            {"harness": "H_C11_xor_keys", "pkg": CF, "stubbed": True, "reach": ["hardened"], "bound_quick": "1..3 dispatcher edges; <=1 rejected key", "bound_thorough": "1..5 edges"},
            {"harness": "H_C11_delegate_keys", "pkg": CF, "stubbed": True, "reach": ["hardened"], "bound_quick": "1..3 dispatcher edges; key size 8; <=1 rejected key", "bound_thorough": "1..5 edges"},
            {"harness": "H_C11_always_false", "pkg": CF, "reach": ["cond"], "bound": "both Int31 draws and the candidate choice fully symbolic"},
            {"harness": "H_C11_directive_int", "pkg": CF, "reach": ["parsed"], "bound_quick": "parameter text of 1..3 printable bytes", "bound_thorough": "1..4 bytes"},
        ],
        "outside": ["translation validation of the flattened/split/junk/trash SSA and of ssa2ast (needs go/ssa objects built inside the engine)", "range over non-ASCII strings and named results with recover (known defects per the property text, not reachable by these kernels)", "seeds/parameter grid"],
    },
    "C12": {
        "level": "model_checking",
        "level_text": "bounded symbolic model checking of the real hashWithPackage/hashWithStruct/hashWithCustomSalt/runtimeHashWithCustomSalt/seedFlag.Set: each sentence of the property is a relation between hash inputs (sha256 uninterpreted and collision free), decided for symbolic seeds, import paths, identifiers, IDs and flags",
        "level_note": "trusted: gosx encoder, z3 5.1; sha256 collision free; import paths without '|' (not a legal import-path byte) of 1..2 (thorough 3) bytes, identifiers of 1..2 (3) bytes, seeds of 8..9 bytes; only digests giving 6-character names are followed in H_C12_seeded_distinct",
        "claim": "name salting: seeded names depend on (seed, package path, identifier) only and are injective in them; unseeded names follow the garble action ID; field names ignore action IDs; runtime keys follow the same inputs; -seed parsing round-trips",
        "opts": dict(W),
        "runs": [
            {"harness": "H_C12_seeded_stable", "uf": True, "reach": ["hashed"], "bound": "2 configurations x paths/identifiers of 1..2 symbolic bytes"},
            {"harness": "H_C12_seeded_distinct", "uf": True, "reach": ["hashed"], "bound_quick": "paths and identifiers of 1..2 bytes, seeds 8..9 bytes", "bound_thorough": "1..3 bytes"},
            {"harness": "H_C12_unseeded_pkg", "uf": True, "reach": ["hashed"], "bound": "arbitrary 32-byte action IDs, identifiers of 1..2 bytes"},
            {"harness": "H_C12_unseeded_flags", "uf": True, "reach": ["hashed"], "bound": "configurations differing in exactly one of -literals, -tiny, GOGARBLE (same length), garble binary ID"},
            {"harness": "H_C12_fields", "uf": True, "reach": ["hashed"], "bound": "a 2-field struct built with go/types; 2 configurations"},
            {"harness": "H_C12_runtime_keys", "uf": True, "reach": ["hashed"], "bound": "arbitrary runtime action ID / 8-byte seeds"},
            {"harness": "H_C12_seedflag", "reach": ["set"], "bound": "seeds of 6..10 symbolic bytes, 0..2 padding characters"},
        ],
        "outside": ["that cmd/go's action ID covers source, tags and platform", "struct identity hashing for other struct shapes (C15)"],
    },
    "C16": {
        "level": "model_checking",
        "level_text": "bounded symbolic model checking of the real hashWithCustomSalt: every path of the function is executed on 32 arbitrary digest bytes and the solver shows the name invariants unsatisfiable to violate; exhaustive over the digest, sampled over name classes",
        "level_note": "trusted: the gosx encoder (validated per run by replaying witnesses natively), z3 5.1; sha256 replaced by arbitrary bytes (strictly more behaviours)",
        "claim": "hashWithCustomSalt post-processing over all 2^80 hash prefixes",
        "opts": dict(W),
        "runs": [
            {"harness": "H_C16_wellformed", "reach": ["hashed"],
             "bound": "sum: 32 arbitrary bytes (all 2^80 used prefixes x length byte); 12 name classes"},
        ],
        "outside": ["collision probability of sha256 itself"],
    },
}
