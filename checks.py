"""Registry of the solver-based checks: which harnesses decide which property,
with which bounds. Only bounds that ran clean on the unchanged tree are listed."""

W = {"workers": 14}

import gen

CHECKS = {
    "C20": {
        "level": "model_checking",
        "level_text": "bounded symbolic model checking of garble's real command-line functions (splitFlagsFromArgs, filterForwardBuildFlags, rxGarbleFlag through the real regexp engine) against the go command's documented flag tables regenerated from `go help` on every run: every documented flag in every spelling with symbolic values and package arguments, plus fully symbolic short vectors against a reference splitter",
        "level_note": "trusted: gosx encoder (witnesses replayed natively each run), z3 5.1, the parse of `go help build|testflag|test` into (name, boolean?, build?) tables, the 25-line reference splitter in harness/root/c20.go; bounds: values <= 1 byte (quick) / 2 bytes (thorough), <= 3 arguments fully symbolic",
        "claim": "flag/argument split, forwarding filter and misplaced-garble-flag detection agree with the go command's documented flags",
        "opts": dict(W),
        "generate": [gen.go_doc_flags],
        "runs": [
            {"harness": "H_C20_split_each", "reach": ["split"], "bound_quick": "all documented flags x 4 spellings; value 0..1 symbolic bytes; 0..1 package args of 1 byte", "bound_thorough": "value 0..2 bytes; 0..2 package args of 1..3 bytes"},
            {"harness": "H_C20_split_vectors", "reach": ["split"], "bound_quick": "0..2 flags from 6 class representatives x 3 spellings, 1-byte values, 0..1 package args", "bound_thorough": "0..3 flags from 10 representatives, 1..2-byte values, 0..2 package args"},
            {"harness": "H_C20_split_symbolic", "reach": ["split"], "bound_quick": "1..2 fully symbolic arguments of 1..3 bytes (single-dash)", "bound_thorough": "1..3 arguments"},
            {"harness": "H_C20_forward", "reach": ["forward"], "bound_quick": "1 documented flag x 3 spellings, 1-byte value", "bound_thorough": "1..2 flags, 1..2-byte values"},
            {"harness": "H_C20_garbleflag_values", "reach": ["rx"], "bound": "10 concrete arguments that contain a garble flag name without being one"},
            {"harness": "H_C20_garbleflag_positive", "reach": ["rx"], "bound": "5 garble flags x {-,--} x {bare, =value of 0..2 symbolic bytes}, through the real regexp engine"},
        ],
        "outside": ["-args", "-C ordering", "what the go command does with the arguments", "toolexecCmd's assembly of the nested go command (I/O bound)", "cmdgoQuotedSplit/Join"],
    },
    "C16": {
        "level": "model_checking",
        "level_text": "bounded symbolic model checking of the real hashWithCustomSalt: every path of the function is executed on 32 arbitrary digest bytes and the solver shows the name invariants unsatisfiable to violate; exhaustive over the digest, sampled over name classes",
        "level_note": "trusted: the gosx encoder (validated per run by replaying witnesses natively), z3 5.1; sha256 replaced by arbitrary bytes (strictly more behaviours)",
        "claim": "hashWithCustomSalt post-processing over all 2^80 hash prefixes",
        "opts": dict(W),
        "runs": [
            {"harness": "H_C16_wellformed", "reach": ["hashed"],
             "bound": "sum: 32 arbitrary bytes (all 2^80 used prefixes x length byte); 12 name classes"},
        ],
        "outside": ["collision probability of sha256 itself"],
    },
}
