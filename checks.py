"""Registry of the solver-based checks: which harnesses decide which property,
with which bounds. Only bounds that ran clean on the unchanged tree are listed."""

W = {"workers": 14}

CHECKS = {
    "C16": {
        "level": "model_checking",
        "level_text": "bounded symbolic model checking of the real hashWithCustomSalt: every path of the function is executed on 32 arbitrary digest bytes and the solver shows the name invariants unsatisfiable to violate; exhaustive over the digest, sampled over name classes",
        "level_note": "trusted: the gosx encoder (validated per run by replaying witnesses natively), z3 5.1; sha256 replaced by arbitrary bytes (strictly more behaviours)",
        "claim": "hashWithCustomSalt post-processing over all 2^80 hash prefixes",
        "opts": dict(W),
        "runs": [
            {"harness": "H_C16_wellformed", "reach": ["hashed"],
             "bound": "sum: 32 arbitrary bytes (all 2^80 used prefixes x length byte); 12 name classes"},
        ],
        "outside": ["collision probability of sha256 itself"],
    },
}
