#!/usr/bin/env python3
"""Regenerates MANIFEST.json from checks.py (claimed) and na.py (not applicable)."""
import json, os, sys
sys.path.insert(0, os.path.dirname(os.path.abspath(__file__)))
from checks import CHECKS
from na import NOT_APPLICABLE

BASELINE = json.load(open("/root/.vp/BASELINE.json"))["cmd"]
checks = []
for pid in sorted(CHECKS):
    s = CHECKS[pid]
    checks.append({
        "property_id": pid,
        "quick_cmd": "./check %s quick" % pid,
        "thorough_cmd": "./check %s thorough" % pid,
        "evidence_file": "/verif/evidence/%s.json" % pid,
        "replay_cmd_template": "./check replay {path}",
        "engine": "gosx",
        "level_claimed": {"category": s["level"], "text": s["level_text"], "design_ref": s.get("design_ref", "DESIGN.md §4 " + pid)},
        "level_note": s["level_note"],
        "technique": s.get("technique", "bounded symbolic execution of the real functions from go/ssa + SMT (QF_BV; z3 5.1, cvc5 cross-check), counterexamples replayed natively"),
    })
m = {
    "version": 1,
    "setup_cmd": "./setup.sh",
    "hooks": {"guard": "verif", "enable": "none needed: harnesses are injected into /repo's packages with go/packages and `go test -overlay` overlays; no source commits",
              "baseline_off_cmd": BASELINE, "source_commits": [], "add_only": True},
    "engines": [{"name": "gosx", "path": "/verif/gosx", "serves_properties": sorted(CHECKS),
                 "kind_free_text": "symbolic executor for Go SSA (fork of x/tools go/ssa/interp): QF_BV terms, re-execution path exploration, if-conversion, SMT-LIB2 to z3/cvc5 over stdin, native replay through go test -overlay"}],
    "checks": checks,
    "not_applicable": [{"property_id": k, "reason": v} for k, v in sorted(NOT_APPLICABLE.items()) if k not in CHECKS],
    "notes": "All checks: `./check <id> quick|thorough`. Evidence is rewritten on every run. Known findings: /verif/known_findings.jsonl.",
}
json.dump(m, open(os.path.join(os.path.dirname(os.path.abspath(__file__)), "MANIFEST.json"), "w"), indent=1)
print("MANIFEST.json: %d checks, %d not applicable" % (len(checks), len(m["not_applicable"])))
