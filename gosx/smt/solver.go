package smt

import (
	"bufio"
	"fmt"
	"io"
	"os/exec"
	"strconv"
	"strings"
	"time"
)

type Result int

const (
	Unknown Result = iota
	Sat
	Unsat
)

func (r Result) String() string { return [...]string{"unknown", "sat", "unsat"}[r] }

// Backend describes how to start one solver.
type Backend struct {
	Name string
	Argv []string
}

var Backends = map[string]Backend{
	"z3new": {"z3new", []string{"z3-new", "-in"}},
	"z3":    {"z3", []string{"/usr/bin/z3", "-in"}},
	"cvc5":  {"cvc5", []string{"cvc5", "--incremental", "--lang", "smt2", "--produce-models"}},
}

// Stats accumulates per-solver counters.
type Stats struct {
	Queries  int
	Sat      int
	Unsat    int
	Unknown  int
	Errors   int
	Time     time.Duration
	MaxQuery time.Duration
}

// Solver is one live solver process fed over stdin.
type Solver struct {
	B         Backend
	cmd       *exec.Cmd
	in        io.WriteCloser
	out       *bufio.Reader
	defined   map[int]bool
	depth     int
	TimeoutMS int
	Stats     Stats
	LastErr   string
	Log       io.Writer // optional transcript
}

func Start(b Backend, timeoutMS int) (*Solver, error) {
	s := &Solver{B: b, TimeoutMS: timeoutMS}
	if err := s.spawn(); err != nil {
		return nil, err
	}
	return s, nil
}

func (s *Solver) spawn() error {
	argv := append([]string{}, s.B.Argv...)
	if s.B.Name == "cvc5" && s.TimeoutMS > 0 {
		argv = append(argv, "--tlimit-per="+strconv.Itoa(s.TimeoutMS))
	}
	cmd := exec.Command(argv[0], argv[1:]...)
	in, err := cmd.StdinPipe()
	if err != nil {
		return err
	}
	out, err := cmd.StdoutPipe()
	if err != nil {
		return err
	}
	cmd.Stderr = cmd.Stdout
	if err := cmd.Start(); err != nil {
		return err
	}
	s.cmd, s.in, s.out = cmd, in, bufio.NewReaderSize(out, 1<<16)
	s.defined = make(map[int]bool)
	s.depth = 0
	s.prelude()
	return nil
}

func (s *Solver) prelude() {
	if s.B.Name == "cvc5" {
		s.send("(set-logic ALL)\n")
	} else if s.TimeoutMS > 0 {
		s.send(fmt.Sprintf("(set-option :timeout %d)\n", s.TimeoutMS))
	}
}

func (s *Solver) send(text string) {
	if s.Log != nil {
		io.WriteString(s.Log, text)
	}
	io.WriteString(s.in, text)
}

func (s *Solver) Close() {
	if s.cmd != nil {
		s.in.Close()
		s.cmd.Process.Kill()
		s.cmd.Wait()
		s.cmd = nil
	}
}

// Reset forgets all definitions and assertions (start of a new path).
func (s *Solver) Reset() {
	if s.LastErr != "" || s.cmd == nil {
		// after an error the process state is not trusted: restart it
		s.Close()
		s.LastErr = ""
		if err := s.spawn(); err != nil {
			panic(err)
		}
		return
	}
	s.send("(reset)\n")
	s.defined = make(map[int]bool)
	s.depth = 0
	s.prelude()
}

// Assert adds t at the current level. Definitions are emitted at the
// current level too, so Assert must only be used for terms that stay
// relevant for the rest of the path (which is how the explorer uses it:
// levels are never popped except by Check's own scope).
func (s *Solver) Assert(t *Term) {
	var sb strings.Builder
	Define(&sb, t, s.defined)
	fmt.Fprintf(&sb, "(assert %s)\n", Ref(t))
	s.send(sb.String())
}

// Check decides satisfiability of the asserted facts plus extra.
// If wantModel and the answer is sat, the values of vars are returned.
func (s *Solver) Check(extra *Term, vars []*Term, wantModel bool) (Result, map[string]uint64) {
	var sb strings.Builder
	if extra != nil {
		Define(&sb, extra, s.defined) // level 0 of this scope: definitions persist
		sb.WriteString("(push 1)\n")
		fmt.Fprintf(&sb, "(assert %s)\n", Ref(extra))
	}
	sb.WriteString("(check-sat)\n")
	start := time.Now()
	s.send(sb.String())
	line, err := s.readLine()
	d := time.Since(start)
	s.Stats.Queries++
	s.Stats.Time += d
	if d > s.Stats.MaxQuery {
		s.Stats.MaxQuery = d
	}
	res := Unknown
	switch {
	case err != nil:
		s.LastErr = "solver died: " + err.Error()
		s.Stats.Errors++
		s.cmd = nil
		return Unknown, nil
	case line == "sat":
		res = Sat
		s.Stats.Sat++
	case line == "unsat":
		res = Unsat
		s.Stats.Unsat++
	case line == "unknown" || line == "timeout":
		s.Stats.Unknown++
	default:
		s.LastErr = line
		s.Stats.Errors++
		s.Stats.Unknown++
	}
	var model map[string]uint64
	if res == Sat && wantModel && len(vars) > 0 {
		model = s.getValues(vars)
	}
	if extra != nil && s.cmd != nil {
		s.send("(pop 1)\n")
	}
	return res, model
}

func (s *Solver) readLine() (string, error) {
	for {
		line, err := s.out.ReadString('\n')
		if err != nil {
			return "", err
		}
		line = strings.TrimSpace(line)
		if line == "" {
			continue
		}
		if strings.HasPrefix(line, "<stdin>") { // cvc5 warnings
			continue
		}
		return line, nil
	}
}

// readSexp reads one balanced s-expression from the solver.
func (s *Solver) readSexp() (string, error) {
	var sb strings.Builder
	depth := 0
	started := false
	inBar := false
	for {
		c, err := s.out.ReadByte()
		if err != nil {
			return "", err
		}
		sb.WriteByte(c)
		if inBar {
			if c == '|' {
				inBar = false
			}
			continue
		}
		switch c {
		case '|':
			inBar = true
		case '(':
			depth++
			started = true
		case ')':
			depth--
			if started && depth == 0 {
				return sb.String(), nil
			}
		}
	}
}

func (s *Solver) getValues(vars []*Term) map[string]uint64 {
	model := make(map[string]uint64, len(vars))
	const chunk = 400
	for i := 0; i < len(vars); i += chunk {
		j := min(i+chunk, len(vars))
		var sb strings.Builder
		sb.WriteString("(get-value (")
		n := 0
		for _, v := range vars[i:j] {
			if !s.defined[v.ID] {
				continue // never sent to the solver: unconstrained
			}
			sb.WriteString(Ref(v))
			sb.WriteByte(' ')
			n++
		}
		sb.WriteString("))\n")
		if n == 0 {
			continue
		}
		s.send(sb.String())
		txt, err := s.readSexp()
		if err != nil {
			s.LastErr = "get-value: " + err.Error()
			s.cmd = nil
			return model
		}
		if strings.Contains(txt, "(error") {
			s.LastErr = txt
			return model
		}
		parseValues(txt, model)
	}
	return model
}

// parseValues parses ((|name| #x0f) (|b| true) ...).
func parseValues(txt string, model map[string]uint64) {
	i := 0
	n := len(txt)
	skip := func() {
		for i < n && (txt[i] == ' ' || txt[i] == '\n' || txt[i] == '\t' || txt[i] == '\r') {
			i++
		}
	}
	skip()
	if i < n && txt[i] == '(' {
		i++
	}
	for {
		skip()
		if i >= n || txt[i] == ')' {
			return
		}
		if txt[i] != '(' {
			return
		}
		i++
		skip()
		var name string
		if txt[i] == '|' {
			j := strings.IndexByte(txt[i+1:], '|')
			name = txt[i+1 : i+1+j]
			i += j + 2
		} else {
			j := i
			for j < n && txt[j] != ' ' && txt[j] != '\n' {
				j++
			}
			name = txt[i:j]
			i = j
		}
		skip()
		j := i
		depth := 0
		for j < n {
			if txt[j] == '(' {
				depth++
			} else if txt[j] == ')' {
				if depth == 0 {
					break
				}
				depth--
			}
			j++
		}
		val := strings.TrimSpace(txt[i:j])
		i = j + 1
		switch {
		case val == "true":
			model[name] = 1
		case val == "false":
			model[name] = 0
		case strings.HasPrefix(val, "#x"):
			v, _ := strconv.ParseUint(val[2:], 16, 64)
			model[name] = v
		case strings.HasPrefix(val, "#b"):
			v, _ := strconv.ParseUint(val[2:], 2, 64)
			model[name] = v
		case strings.HasPrefix(val, "(_ bv"):
			f := strings.Fields(val[5:])
			v, _ := strconv.ParseUint(f[0], 10, 64)
			model[name] = v
		}
	}
}
