// Package smt holds the hash-consed QF_BV term DAG used by the symbolic
// interpreter, an evaluator for it, and an SMT-LIB2 printer.
package smt

import (
	"fmt"
	"math/bits"
	"strings"
)

type Op uint8

const (
	OConst Op = iota // bit-vector constant (W>0) or boolean constant (W==0, Val 0/1)
	OVar
	ONot  // bool
	OAnd  // bool
	OOr   // bool
	OIte  // cond, a, b (a, b same sort)
	OEq   // a, b same sort -> bool
	OBvNot
	OBvNeg
	OBvAnd
	OBvOr
	OBvXor
	OBvAdd
	OBvSub
	OBvMul
	OBvUdiv
	OBvUrem
	OBvSdiv
	OBvSrem
	OBvShl
	OBvLshr
	OBvAshr
	OUlt
	OUle
	OSlt
	OSle
	OZext  // W = new width
	OSext  // W = new width
	OExtract // Val = hi<<8|lo, W = hi-lo+1
	OConcat
)

var opNames = map[Op]string{
	ONot: "not", OAnd: "and", OOr: "or", OIte: "ite", OEq: "=",
	OBvNot: "bvnot", OBvNeg: "bvneg", OBvAnd: "bvand", OBvOr: "bvor", OBvXor: "bvxor",
	OBvAdd: "bvadd", OBvSub: "bvsub", OBvMul: "bvmul", OBvUdiv: "bvudiv", OBvUrem: "bvurem",
	OBvSdiv: "bvsdiv", OBvSrem: "bvsrem", OBvShl: "bvshl", OBvLshr: "bvlshr", OBvAshr: "bvashr",
	OUlt: "bvult", OUle: "bvule", OSlt: "bvslt", OSle: "bvsle", OConcat: "concat",
}

// Term is an immutable node. W is the bit width; 0 means Bool.
type Term struct {
	Op   Op
	W    uint8
	Val  uint64
	A    [3]*Term
	Name string // for OVar
	ID   int
}

type key struct {
	op      Op
	w       uint8
	val     uint64
	a, b, c int
	name    string
}

// Ctx owns the terms of one path.
type Ctx struct {
	tab   map[key]*Term
	Vars  []*Term
	next  int
	True  *Term
	False *Term
}

func NewCtx() *Ctx {
	c := &Ctx{tab: make(map[key]*Term)}
	c.True = c.mk(OConst, 0, 1, "", nil, nil, nil)
	c.False = c.mk(OConst, 0, 0, "", nil, nil, nil)
	return c
}

func id(t *Term) int {
	if t == nil {
		return -1
	}
	return t.ID
}

func (c *Ctx) mk(op Op, w uint8, val uint64, name string, a, b, d *Term) *Term {
	k := key{op, w, val, id(a), id(b), id(d), name}
	if t, ok := c.tab[k]; ok {
		return t
	}
	t := &Term{Op: op, W: w, Val: val, A: [3]*Term{a, b, d}, Name: name, ID: c.next}
	c.next++
	c.tab[k] = t
	return t
}

func (c *Ctx) NumTerms() int { return c.next }

func mask(w uint8) uint64 {
	if w >= 64 {
		return ^uint64(0)
	}
	return (uint64(1) << w) - 1
}

func (c *Ctx) Const(w uint8, v uint64) *Term {
	if w == 0 {
		panic("smt: Const with width 0")
	}
	return c.mk(OConst, w, v&mask(w), "", nil, nil, nil)
}

func (c *Ctx) Bool(b bool) *Term {
	if b {
		return c.True
	}
	return c.False
}

// Var creates (or returns) the variable with the given name.
func (c *Ctx) Var(name string, w uint8) *Term {
	k := key{OVar, w, 0, -1, -1, -1, name}
	if t, ok := c.tab[k]; ok {
		return t
	}
	t := c.mk(OVar, w, 0, name, nil, nil, nil)
	c.Vars = append(c.Vars, t)
	return t
}

func (t *Term) IsConst() bool { return t.Op == OConst }
func (t *Term) IsTrue() bool  { return t.Op == OConst && t.W == 0 && t.Val == 1 }
func (t *Term) IsFalse() bool { return t.Op == OConst && t.W == 0 && t.Val == 0 }

func sext64(v uint64, w uint8) int64 {
	if w >= 64 {
		return int64(v)
	}
	sh := 64 - uint(w)
	return int64(v<<sh) >> sh
}

func (c *Ctx) Not(a *Term) *Term {
	if a.W != 0 {
		panic("smt: Not on non-bool")
	}
	if a.IsConst() {
		return c.Bool(a.Val == 0)
	}
	if a.Op == ONot {
		return a.A[0]
	}
	return c.mk(ONot, 0, 0, "", a, nil, nil)
}

func (c *Ctx) And(a, b *Term) *Term {
	if a.IsConst() {
		if a.Val == 1 {
			return b
		}
		return c.False
	}
	if b.IsConst() {
		if b.Val == 1 {
			return a
		}
		return c.False
	}
	if a == b {
		return a
	}
	if a.ID > b.ID {
		a, b = b, a
	}
	return c.mk(OAnd, 0, 0, "", a, b, nil)
}

func (c *Ctx) Or(a, b *Term) *Term {
	if a.IsConst() {
		if a.Val == 1 {
			return c.True
		}
		return b
	}
	if b.IsConst() {
		if b.Val == 1 {
			return c.True
		}
		return a
	}
	if a == b {
		return a
	}
	if a.ID > b.ID {
		a, b = b, a
	}
	return c.mk(OOr, 0, 0, "", a, b, nil)
}

func (c *Ctx) Implies(a, b *Term) *Term { return c.Or(c.Not(a), b) }

func (c *Ctx) Ite(cond, a, b *Term) *Term {
	if cond.W != 0 || a.W != b.W {
		panic(fmt.Sprintf("smt: Ite sorts %d %d %d", cond.W, a.W, b.W))
	}
	if cond.IsConst() {
		if cond.Val == 1 {
			return a
		}
		return b
	}
	if a == b {
		return a
	}
	if a.W == 0 {
		// boolean ite
		if a.IsConst() && b.IsConst() {
			if a.Val == 1 {
				return cond
			}
			return c.Not(cond)
		}
		if a.IsTrue() {
			return c.Or(cond, b)
		}
		if a.IsFalse() {
			return c.And(c.Not(cond), b)
		}
		if b.IsTrue() {
			return c.Or(c.Not(cond), a)
		}
		if b.IsFalse() {
			return c.And(cond, a)
		}
	}
	return c.mk(OIte, a.W, 0, "", cond, a, b)
}

func (c *Ctx) Eq(a, b *Term) *Term {
	if a.W != b.W {
		panic(fmt.Sprintf("smt: Eq widths %d %d", a.W, b.W))
	}
	if a == b {
		return c.True
	}
	if a.IsConst() && b.IsConst() {
		return c.Bool(a.Val == b.Val)
	}
	if a.W == 0 {
		if a.IsConst() {
			if a.Val == 1 {
				return b
			}
			return c.Not(b)
		}
		if b.IsConst() {
			if b.Val == 1 {
				return a
			}
			return c.Not(a)
		}
	}
	// equality of a zero-extended value with a constant
	if b.IsConst() && a.Op == OZext {
		in := a.A[0]
		if b.Val>>in.W != 0 {
			return c.False
		}
		return c.Eq(in, c.Const(in.W, b.Val))
	}
	if a.IsConst() && b.Op == OZext {
		return c.Eq(b, a)
	}
	if a.Op == OZext && b.Op == OZext && a.A[0].W == b.A[0].W {
		return c.Eq(a.A[0], b.A[0])
	}
	// push equality with a constant through ite of constants
	if b.IsConst() && a.Op == OIte && (a.A[1].IsConst() || a.A[2].IsConst()) {
		return c.Ite(a.A[0], c.Eq(a.A[1], b), c.Eq(a.A[2], b))
	}
	if a.IsConst() && b.Op == OIte && (b.A[1].IsConst() || b.A[2].IsConst()) {
		return c.Ite(b.A[0], c.Eq(b.A[1], a), c.Eq(b.A[2], a))
	}
	if a.ID > b.ID {
		a, b = b, a
	}
	return c.mk(OEq, 0, 0, "", a, b, nil)
}

func (c *Ctx) Unary(op Op, a *Term) *Term {
	if a.IsConst() {
		switch op {
		case OBvNot:
			return c.Const(a.W, ^a.Val)
		case OBvNeg:
			return c.Const(a.W, -a.Val)
		}
	}
	if a.Op == op { // double negation
		return a.A[0]
	}
	return c.mk(op, a.W, 0, "", a, nil, nil)
}

func evalBin(op Op, w uint8, x, y uint64) uint64 {
	m := mask(w)
	switch op {
	case OBvAnd:
		return x & y
	case OBvOr:
		return x | y
	case OBvXor:
		return x ^ y
	case OBvAdd:
		return (x + y) & m
	case OBvSub:
		return (x - y) & m
	case OBvMul:
		return (x * y) & m
	case OBvUdiv:
		if y == 0 {
			return m
		}
		return x / y
	case OBvUrem:
		if y == 0 {
			return x
		}
		return x % y
	case OBvSdiv:
		sx, sy := sext64(x, w), sext64(y, w)
		if sy == 0 {
			if sx < 0 {
				return 1
			}
			return m
		}
		if sy == -1 {
			return uint64(-sx) & m
		}
		return uint64(sx/sy) & m
	case OBvSrem:
		sx, sy := sext64(x, w), sext64(y, w)
		if sy == 0 {
			return x
		}
		if sy == -1 {
			return 0
		}
		return uint64(sx%sy) & m
	case OBvShl:
		if y >= uint64(w) {
			return 0
		}
		return (x << y) & m
	case OBvLshr:
		if y >= uint64(w) {
			return 0
		}
		return x >> y
	case OBvAshr:
		sx := sext64(x, w)
		if y >= uint64(w) {
			if sx < 0 {
				return m
			}
			return 0
		}
		return uint64(sx>>y) & m
	}
	panic("smt: evalBin op")
}

func evalCmp(op Op, w uint8, x, y uint64) bool {
	switch op {
	case OUlt:
		return x < y
	case OUle:
		return x <= y
	case OSlt:
		return sext64(x, w) < sext64(y, w)
	case OSle:
		return sext64(x, w) <= sext64(y, w)
	}
	panic("smt: evalCmp op")
}

// Bin builds a bit-vector binary operation (both operands same width).
func (c *Ctx) Bin(op Op, a, b *Term) *Term {
	if a.W != b.W || a.W == 0 {
		panic(fmt.Sprintf("smt: Bin %s widths %d %d", opNames[op], a.W, b.W))
	}
	if a.IsConst() && b.IsConst() {
		return c.Const(a.W, evalBin(op, a.W, a.Val, b.Val))
	}
	m := mask(a.W)
	switch op {
	case OBvAdd, OBvOr, OBvXor:
		if a.IsConst() && a.Val == 0 {
			return b
		}
		if b.IsConst() && b.Val == 0 {
			return a
		}
		if op == OBvXor && a == b {
			return c.Const(a.W, 0)
		}
		if op == OBvOr && a == b {
			return a
		}
	case OBvSub:
		if b.IsConst() && b.Val == 0 {
			return a
		}
		if a == b {
			return c.Const(a.W, 0)
		}
	case OBvAnd:
		if a.IsConst() && a.Val == 0 || b.IsConst() && b.Val == 0 {
			return c.Const(a.W, 0)
		}
		if a.IsConst() && a.Val == m {
			return b
		}
		if b.IsConst() && b.Val == m {
			return a
		}
		if a == b {
			return a
		}
	case OBvMul:
		if a.IsConst() && a.Val == 0 || b.IsConst() && b.Val == 0 {
			return c.Const(a.W, 0)
		}
		if a.IsConst() && a.Val == 1 {
			return b
		}
		if b.IsConst() && b.Val == 1 {
			return a
		}
	case OBvShl, OBvLshr, OBvAshr:
		if b.IsConst() && b.Val == 0 {
			return a
		}
		if b.IsConst() && b.Val >= uint64(a.W) && op != OBvAshr {
			return c.Const(a.W, 0)
		}
	}
	switch op {
	case OBvAdd, OBvOr, OBvXor, OBvAnd, OBvMul:
		if a.ID > b.ID {
			a, b = b, a
		}
	}
	return c.mk(op, a.W, 0, "", a, b, nil)
}

// Cmp builds a comparison.
func (c *Ctx) Cmp(op Op, a, b *Term) *Term {
	if a.W != b.W || a.W == 0 {
		panic(fmt.Sprintf("smt: Cmp widths %d %d", a.W, b.W))
	}
	if a.IsConst() && b.IsConst() {
		return c.Bool(evalCmp(op, a.W, a.Val, b.Val))
	}
	if a == b {
		return c.Bool(op == OUle || op == OSle)
	}
	// comparisons of a zero-extended value with a constant
	if a.Op == OZext && b.IsConst() && a.A[0].W < a.W {
		in := a.A[0]
		nonneg := sext64(b.Val, b.W) >= 0
		if op == OUlt || op == OUle || nonneg {
			if b.Val>>in.W != 0 {
				return c.True // the constant exceeds every value of the narrow operand
			}
			nop := op
			if op == OSlt {
				nop = OUlt
			} else if op == OSle {
				nop = OUle
			}
			return c.Cmp(nop, in, c.Const(in.W, b.Val))
		}
		return c.False // signed comparison with a negative constant
	}
	if b.Op == OZext && a.IsConst() && b.A[0].W < b.W {
		in := b.A[0]
		nonneg := sext64(a.Val, a.W) >= 0
		if op == OUlt || op == OUle || nonneg {
			if a.Val>>in.W != 0 {
				return c.False
			}
			nop := op
			if op == OSlt {
				nop = OUlt
			} else if op == OSle {
				nop = OUle
			}
			return c.Cmp(nop, c.Const(in.W, a.Val), in)
		}
		return c.True
	}
	return c.mk(op, 0, 0, "", a, b, nil)
}

func (c *Ctx) Zext(a *Term, w uint8) *Term {
	if w == a.W {
		return a
	}
	if w < a.W {
		panic("smt: Zext shrinking")
	}
	if a.IsConst() {
		return c.Const(w, a.Val)
	}
	if a.Op == OZext {
		return c.Zext(a.A[0], w)
	}
	return c.mk(OZext, w, 0, "", a, nil, nil)
}

func (c *Ctx) Sext(a *Term, w uint8) *Term {
	if w == a.W {
		return a
	}
	if w < a.W {
		panic("smt: Sext shrinking")
	}
	if a.IsConst() {
		return c.Const(w, uint64(sext64(a.Val, a.W)))
	}
	if a.Op == OZext { // sign bit is known zero
		return c.Zext(a.A[0], w)
	}
	return c.mk(OSext, w, 0, "", a, nil, nil)
}

func (c *Ctx) Extract(a *Term, hi, lo uint8) *Term {
	if hi >= a.W || lo > hi {
		panic(fmt.Sprintf("smt: Extract [%d:%d] of width %d", hi, lo, a.W))
	}
	w := hi - lo + 1
	if w == a.W {
		return a
	}
	if a.IsConst() {
		return c.Const(w, a.Val>>lo)
	}
	if (a.Op == OZext || a.Op == OSext) && lo == 0 {
		in := a.A[0]
		if w == in.W {
			return in
		}
		if w < in.W {
			return c.Extract(in, hi, 0)
		}
		if a.Op == OZext {
			return c.Zext(in, w)
		}
		return c.Sext(in, w)
	}
	if a.Op == OZext && lo >= a.A[0].W {
		return c.Const(w, 0)
	}
	if a.Op == OExtract {
		ilo := uint8(a.Val & 0xff)
		return c.Extract(a.A[0], hi+ilo, lo+ilo)
	}
	return c.mk(OExtract, w, uint64(hi)<<8|uint64(lo), "", a, nil, nil)
}

func (c *Ctx) Concat(hi, lo *Term) *Term {
	w := hi.W + lo.W
	if w > 64 {
		panic("smt: Concat wider than 64")
	}
	if hi.IsConst() && lo.IsConst() {
		return c.Const(w, hi.Val<<lo.W|lo.Val)
	}
	if hi.IsConst() && hi.Val == 0 {
		return c.Zext(lo, w)
	}
	return c.mk(OConcat, w, 0, "", hi, lo, nil)
}

// Resize converts a to width w, sign- or zero-extending when growing.
func (c *Ctx) Resize(a *Term, w uint8, signed bool) *Term {
	switch {
	case w == a.W:
		return a
	case w < a.W:
		return c.Extract(a, w-1, 0)
	case signed:
		return c.Sext(a, w)
	default:
		return c.Zext(a, w)
	}
}

// Eval evaluates t under the model (variable name -> value). Missing
// variables evaluate to 0. Booleans are 0/1.
func Eval(t *Term, model map[string]uint64, memo map[*Term]uint64) uint64 {
	if t.Op == OConst {
		return t.Val
	}
	if v, ok := memo[t]; ok {
		return v
	}
	var r uint64
	b := func(x bool) uint64 {
		if x {
			return 1
		}
		return 0
	}
	switch t.Op {
	case OVar:
		r = model[t.Name] & func() uint64 {
			if t.W == 0 {
				return 1
			}
			return mask(t.W)
		}()
	case ONot:
		r = 1 - Eval(t.A[0], model, memo)
	case OAnd:
		r = Eval(t.A[0], model, memo) & Eval(t.A[1], model, memo)
	case OOr:
		r = Eval(t.A[0], model, memo) | Eval(t.A[1], model, memo)
	case OIte:
		if Eval(t.A[0], model, memo) == 1 {
			r = Eval(t.A[1], model, memo)
		} else {
			r = Eval(t.A[2], model, memo)
		}
	case OEq:
		r = b(Eval(t.A[0], model, memo) == Eval(t.A[1], model, memo))
	case OBvNot:
		r = ^Eval(t.A[0], model, memo) & mask(t.W)
	case OBvNeg:
		r = -Eval(t.A[0], model, memo) & mask(t.W)
	case OUlt, OUle, OSlt, OSle:
		r = b(evalCmp(t.Op, t.A[0].W, Eval(t.A[0], model, memo), Eval(t.A[1], model, memo)))
	case OZext:
		r = Eval(t.A[0], model, memo)
	case OSext:
		r = uint64(sext64(Eval(t.A[0], model, memo), t.A[0].W)) & mask(t.W)
	case OExtract:
		lo := uint8(t.Val & 0xff)
		r = (Eval(t.A[0], model, memo) >> lo) & mask(t.W)
	case OConcat:
		r = Eval(t.A[0], model, memo)<<t.A[1].W | Eval(t.A[1], model, memo)
	default:
		r = evalBin(t.Op, t.W, Eval(t.A[0], model, memo), Eval(t.A[1], model, memo))
	}
	memo[t] = r
	return r
}

func sortOf(w uint8) string {
	if w == 0 {
		return "Bool"
	}
	return fmt.Sprintf("(_ BitVec %d)", w)
}

func constLit(t *Term) string {
	if t.W == 0 {
		if t.Val == 1 {
			return "true"
		}
		return "false"
	}
	if t.W%4 == 0 {
		return fmt.Sprintf("#x%0*x", int(t.W/4), t.Val)
	}
	return fmt.Sprintf("#b%0*b", int(t.W), t.Val)
}

// Ref returns how a term is referenced in SMT-LIB once defined.
func Ref(t *Term) string {
	switch t.Op {
	case OConst:
		return constLit(t)
	case OVar:
		return "|" + t.Name + "|"
	}
	return fmt.Sprintf("t%d", t.ID)
}

// Define appends the SMT-LIB commands that declare/define t and everything
// below it that is not yet in done.
func Define(sb *strings.Builder, t *Term, done map[int]bool) {
	if t.Op == OConst || done[t.ID] {
		return
	}
	// iterative post-order to avoid deep recursion on long chains
	type fr struct {
		t *Term
		i int
	}
	stack := []fr{{t, 0}}
	for len(stack) > 0 {
		top := &stack[len(stack)-1]
		if top.t.Op == OConst || done[top.t.ID] {
			stack = stack[:len(stack)-1]
			continue
		}
		if top.i < 3 && top.t.A[top.i] != nil {
			ch := top.t.A[top.i]
			top.i++
			if ch.Op != OConst && !done[ch.ID] {
				stack = append(stack, fr{ch, 0})
			}
			continue
		}
		if top.i < 3 && top.t.A[top.i] == nil {
			top.i = 3
		}
		n := top.t
		stack = stack[:len(stack)-1]
		if done[n.ID] {
			continue
		}
		done[n.ID] = true
		if n.Op == OVar {
			fmt.Fprintf(sb, "(declare-const %s %s)\n", Ref(n), sortOf(n.W))
			continue
		}
		fmt.Fprintf(sb, "(define-fun t%d () %s ", n.ID, sortOf(n.W))
		switch n.Op {
		case OZext:
			fmt.Fprintf(sb, "((_ zero_extend %d) %s)", n.W-n.A[0].W, Ref(n.A[0]))
		case OSext:
			fmt.Fprintf(sb, "((_ sign_extend %d) %s)", n.W-n.A[0].W, Ref(n.A[0]))
		case OExtract:
			fmt.Fprintf(sb, "((_ extract %d %d) %s)", n.Val>>8, n.Val&0xff, Ref(n.A[0]))
		default:
			sb.WriteString("(" + opNames[n.Op])
			for _, a := range n.A {
				if a != nil {
					sb.WriteString(" " + Ref(a))
				}
			}
			sb.WriteString(")")
		}
		sb.WriteString(")\n")
	}
}

// String renders a term as a (possibly large) s-expression, for diagnostics.
func (t *Term) String() string {
	var sb strings.Builder
	t.str(&sb, 0)
	return sb.String()
}

func (t *Term) str(sb *strings.Builder, depth int) {
	switch t.Op {
	case OConst:
		sb.WriteString(constLit(t))
		return
	case OVar:
		sb.WriteString(t.Name)
		return
	}
	if depth > 6 {
		fmt.Fprintf(sb, "t%d", t.ID)
		return
	}
	switch t.Op {
	case OZext:
		fmt.Fprintf(sb, "(zext%d ", t.W)
	case OSext:
		fmt.Fprintf(sb, "(sext%d ", t.W)
	case OExtract:
		fmt.Fprintf(sb, "(extract[%d:%d] ", t.Val>>8, t.Val&0xff)
	default:
		sb.WriteString("(" + opNames[t.Op] + " ")
	}
	for i, a := range t.A {
		if a == nil {
			break
		}
		if i > 0 {
			sb.WriteString(" ")
		}
		a.str(sb, depth+1)
	}
	sb.WriteString(")")
}

var _ = bits.Len
