package interp

// Symbolic layer: symbolic scalar values, symbolic strings, the path
// explorer (re-execution with a decision prefix) and the solver glue.

import (
	"fmt"
	"go/token"
	"go/types"
	"os"
	"path/filepath"
	"strings"
	"time"

	"gosx/smt"
)

// sym is a symbolic boolean or integer. k is the basic kind of its Go type
// (types.Bool or one of the integer kinds).
type sym struct {
	t *smt.Term
	k types.BasicKind
}

// symstr is a string of concrete length whose bytes may be symbolic
// (each element is uint8 or sym of kind Uint8).
type symstr struct {
	b []value
}

// symPtr is the address of x[idx] for a symbolic idx (result of IndexAddr).
// Only loads and stores through it are supported directly.
type symPtr struct {
	base []value
	idx  sym
}

func kindWidth(k types.BasicKind) uint8 {
	switch k {
	case types.Bool:
		return 0
	case types.Int8, types.Uint8:
		return 8
	case types.Int16, types.Uint16:
		return 16
	case types.Int32, types.Uint32:
		return 32
	case types.Int, types.Int64, types.Uint, types.Uint64, types.Uintptr:
		return 64
	}
	panic(fmt.Sprintf("kindWidth: %v", k))
}

func kindSigned(k types.BasicKind) bool {
	switch k {
	case types.Int, types.Int8, types.Int16, types.Int32, types.Int64:
		return true
	}
	return false
}

// kindOfValue returns the basic kind of a concrete or symbolic scalar.
func kindOfValue(v value) (types.BasicKind, bool) {
	switch v := v.(type) {
	case sym:
		return v.k, true
	case bool:
		return types.Bool, true
	case int:
		return types.Int, true
	case int8:
		return types.Int8, true
	case int16:
		return types.Int16, true
	case int32:
		return types.Int32, true
	case int64:
		return types.Int64, true
	case uint:
		return types.Uint, true
	case uint8:
		return types.Uint8, true
	case uint16:
		return types.Uint16, true
	case uint32:
		return types.Uint32, true
	case uint64:
		return types.Uint64, true
	case uintptr:
		return types.Uintptr, true
	}
	return 0, false
}

func concreteOf(k types.BasicKind, v uint64) value {
	switch k {
	case types.Bool:
		return v != 0
	case types.Int:
		return int(v)
	case types.Int8:
		return int8(v)
	case types.Int16:
		return int16(v)
	case types.Int32:
		return int32(v)
	case types.Int64:
		return int64(v)
	case types.Uint:
		return uint(v)
	case types.Uint8:
		return uint8(v)
	case types.Uint16:
		return uint16(v)
	case types.Uint32:
		return uint32(v)
	case types.Uint64:
		return uint64(v)
	case types.Uintptr:
		return uintptr(v)
	}
	panic(fmt.Sprintf("concreteOf: kind %v", k))
}

func isSym(v value) bool {
	_, ok := v.(sym)
	return ok
}

// pathEnd is panicked to terminate the current path.
type pathEnd struct {
	kind string // "unmodelled", "unwound", "infeasible", "unknown", "assume-false"
	msg  string
}

func unmodelled(format string, args ...any) {
	panic(pathEnd{"unmodelled", fmt.Sprintf(format, args...)})
}

// decision is one entry of the trail.
type decision struct {
	taken  bool
	forced bool   // the other side was infeasible: nothing to explore
	hint   uint64 // value proposed by concretize (so replays propose the same)
}

// Violation describes a failed assertion or unexpected panic with its model.
type Violation struct {
	Msg    string
	Model  map[string]uint64
	Trail  string
	Inputs []InputRec
	Draws  []DrawRec
}

// InputRec records one symbolic input created through symx.
type InputRec struct {
	Name string
	Kind string // "byte","int","uint64","bool","bytes","string","choose","draw"
	Vars []string
	Val  []uint64 // filled from the model
}

// DrawRec records one intercepted random draw.
type DrawRec struct {
	Method  string
	Global  bool   // drawn from the process-global source (uncontrolled)
	Arg     uint64 // n for Intn etc. (concrete or model value)
	Val     []uint64
	Terms   []*smt.Term `json:"-"`
	ArgTerm *smt.Term   `json:"-"`
}

type observation struct {
	tag  string
	vals []value
}

func (o observation) render(model map[string]uint64, memo map[*smt.Term]uint64) string {
	var sb strings.Builder
	sb.WriteString(o.tag)
	for _, v := range o.vals {
		sb.WriteByte(' ')
		renderValue(&sb, v, model, memo)
	}
	return sb.String()
}

func renderValue(sb *strings.Builder, v value, model map[string]uint64, memo map[*smt.Term]uint64) {
	switch v := v.(type) {
	case sym:
		fmt.Fprintf(sb, "%v", concreteOf(v.k, smt.Eval(v.t, model, memo)))
	case symstr:
		b := make([]byte, len(v.b))
		for k, e := range v.b {
			if s, ok := e.(sym); ok {
				b[k] = byte(smt.Eval(s.t, model, memo))
			} else {
				b[k] = e.(uint8)
			}
		}
		fmt.Fprintf(sb, "%q", b)
	case string:
		fmt.Fprintf(sb, "%q", []byte(v))
	case []value:
		sb.WriteByte('[')
		for k, e := range v {
			if k > 0 {
				sb.WriteByte(' ')
			}
			renderValue(sb, e, model, memo)
		}
		sb.WriteByte(']')
	case array:
		renderValue(sb, []value(v), model, memo)
	case iface:
		renderValue(sb, v.v, model, memo)
	default:
		fmt.Fprintf(sb, "%v", v)
	}
}

// Exec is the per-path execution context.
type Exec struct {
	ctx    *smt.Ctx
	solver *smt.Solver
	second *smt.Solver // optional cross-check solver for deciding queries

	prefix []decision
	trail  []decision
	alts   [][]decision // alternatives discovered on this path

	pc        []*smt.Term
	model     map[string]uint64 // last model known to satisfy pc (may be nil)
	modelOK   bool
	varCount  int
	inputs    []InputRec
	draws     []DrawRec
	reached   map[string]bool
	witnesses []map[string]any

	MaxDepth  int
	MaxSteps  int64
	steps     int64
	deadline  time.Time
	violation []*Violation

	// counters
	Branches     int
	ForcedCount  int
	Concretized  int
	DecidingQ    int
	Disagree     int
	stubs        map[string]value // function name -> replacement closure
	drawBounds   map[string]int64
	notes        []string
	symLits      []value // symbolic literal table (IntLit/StringLit interception)
	symMapOrder  bool
	mapOrderMin  int // maps with fewer live entries keep insertion order (0 = 2)
	mapOrderFull int // all permutations up to this many entries (0 = 3)
	mapOrderSticky bool // one order per map object and size on a path
	mapOrders    map[*omap][]int
	mapOrderGlobal int
	engineFlags  map[string]int64
	funcs        map[string]int64 // garble functions entered -> count
	wantWitness  bool
	witnessBuf   []Witness
	observed     []observation
	initDone     bool
	ufApps       []ufApp
	in           *interpreter
	Merged       int
	forkSites    map[string]int
	bootstrap    bool
	shaState     map[*value][]value
	drawPolicy   value
	forkSmallTables bool
	crossCheck   bool
	Fallbacks    int
	pendingBound int64
	ivals        map[*smt.Term]ival
	facts        map[*smt.Term]bool
	rangeMemo    map[*smt.Term]ival
	QuickDecided int
	digestIdx    int
	digestMod    uint64
	digestRem    uint64
	digestPrefix int
	fs           *fsState
	guards       []*smt.Term // conditions of the speculated sides being executed
	rewound      int // index of the next draw to reuse, -1 = not rewound / diverged
	rewoundEnd   int
	symLitIdx    map[string]int
}

// guardTerm is the conjunction of the guards of the speculated sides being executed.
func (ex *Exec) guardTerm() *smt.Term {
	g := ex.ctx.True
	for _, t := range ex.guards {
		g = ex.ctx.And(g, t)
	}
	return g
}

func (ex *Exec) noteAbort(why string) {
	if ex.forkSites == nil {
		ex.forkSites = map[string]int{}
	}
	ex.forkSites["spec-abort: "+why]++
}

func (ex *Exec) site() string {
	if ex.in == nil || ex.in.top == nil {
		return "?"
	}
	f := ex.in.top
	site := f.fn.String()
	if f.cur != nil && f.cur.Pos().IsValid() {
		p := ex.in.prog.Fset.Position(f.cur.Pos())
		site += fmt.Sprintf(" %s:%d", filepath.Base(p.Filename), p.Line)
	}
	return site
}

func (ex *Exec) noteFork() {
	if ex.in == nil || ex.in.top == nil {
		return
	}
	site := ex.site()
	if ex.forkSites == nil {
		ex.forkSites = map[string]int{}
	}
	ex.forkSites[site]++
}

func (ex *Exec) freshVar(prefix string, w uint8) *smt.Term {
	ex.varCount++
	return ex.ctx.Var(fmt.Sprintf("%s#%d", prefix, ex.varCount), w)
}

var noQuick = os.Getenv("GOSX_NOQUICK") != ""

func (ex *Exec) assume(t *smt.Term) {
	if t.IsTrue() {
		return
	}
	if t.IsFalse() {
		panic(pathEnd{"assume-false", ""})
	}
	ex.pc = append(ex.pc, t)
	ex.learn(t, true)
	ex.solver.Assert(t)
	if ex.modelOK {
		if smt.Eval(t, ex.model, map[*smt.Term]uint64{}) != 1 {
			ex.modelOK = false
		}
	}
}

// check asks the solver whether pc ∧ extra is satisfiable.
func (ex *Exec) check(extra *smt.Term, deciding bool) (smt.Result, map[string]uint64) {
	r, m := ex.solver.Check(extra, ex.ctx.Vars, true)
	if ex.solver.LastErr != "" {
		msg := ex.solver.LastErr
		panic(pathEnd{"unknown", "solver error: " + msg})
	}
	if r == smt.Unknown && ex.second != nil {
		// portfolio: ask the second solver when the first one gives up
		ex.second.Reset()
		for _, p := range ex.pc {
			ex.second.Assert(p)
		}
		r, m = ex.second.Check(extra, ex.ctx.Vars, true)
		if ex.second.LastErr != "" {
			r = smt.Unknown
		}
		ex.Fallbacks++
	}
	if deciding {
		ex.DecidingQ++
		if ex.crossCheck && ex.second != nil && r != smt.Unknown {
			// replay the whole pc on the second solver
			ex.second.Reset()
			for _, p := range ex.pc {
				ex.second.Assert(p)
			}
			r2, _ := ex.second.Check(extra, nil, false)
			if r2 != smt.Unknown && r2 != r {
				ex.Disagree++
				panic(pathEnd{"unknown", fmt.Sprintf("solver disagreement: %s=%s %s=%s", ex.solver.B.Name, r, ex.second.B.Name, r2)})
			}
		}
	}
	return r, m
}

// feasible reports whether pc ∧ t is satisfiable, using the cached model first.
func (ex *Exec) feasible(t *smt.Term) bool {
	if t.IsTrue() {
		return true
	}
	if t.IsFalse() {
		return false
	}
	if ex.modelOK && smt.Eval(t, ex.model, map[*smt.Term]uint64{}) == 1 {
		return true
	}
	if known, val := ex.quick(t); known && !noQuick {
		ex.QuickDecided++
		return val
	}
	r, m := ex.check(t, false)
	switch r {
	case smt.Sat:
		ex.model, ex.modelOK = m, true // m satisfies pc ∧ t, hence pc
		return true
	case smt.Unsat:
		return false
	}
	panic(pathEnd{"unknown", "feasibility query returned unknown"})
}

// branch decides a symbolic condition, forking the exploration.
func (ex *Exec) branch(c *smt.Term) bool {
	if c.IsConst() {
		return c.Val == 1
	}
	if ex.in != nil && len(ex.in.spec) > 0 {
		// inside a speculated side: a branch that is decided by the path
		// condition and the side's guards is simply followed
		g := ex.guardTerm()
		canT := ex.feasible(ex.ctx.And(g, c))
		canF := ex.feasible(ex.ctx.And(g, ex.ctx.Not(c)))
		switch {
		case !canT && !canF:
			// the side itself cannot be taken under the path condition: nothing
			// executed in it means anything (a "forced" outcome here once turned
			// into a spurious out-of-range panic); let the real branch decide
			panic(specAbort{"infeasible side at " + ex.site()})
		case !canT:
			return false
		case !canF:
			return true
		}
		if os.Getenv("GOSX_SPECDEBUG") != "" {
			fmt.Fprintf(os.Stderr, "spec fork: cond=%s guards=%s\n", c, g)
		}
		panic(specAbort{"fork at " + ex.site()})
	}
	idx := len(ex.trail)
	if idx < len(ex.prefix) {
		d := ex.prefix[idx]
		ex.trail = append(ex.trail, d)
		if d.taken {
			ex.assume(c)
		} else {
			ex.assume(ex.ctx.Not(c))
		}
		return d.taken
	}
	if ex.MaxDepth > 0 && idx >= ex.MaxDepth {
		panic(pathEnd{"unwound", fmt.Sprintf("decision depth %d reached", idx)})
	}
	ex.Branches++
	nc := ex.ctx.Not(c)
	canT := ex.feasible(c)
	var canF bool
	if !canT {
		canF = true // pc is satisfiable by invariant
	} else {
		canF = ex.feasible(nc)
	}
	switch {
	case canT && canF:
		ex.noteFork()
		alt := append(append([]decision{}, ex.trail...), decision{taken: false})
		ex.alts = append(ex.alts, alt)
		ex.trail = append(ex.trail, decision{taken: true})
		ex.assume(c)
		return true
	case canT:
		ex.ForcedCount++
		ex.trail = append(ex.trail, decision{taken: true, forced: true})
		ex.assume(c)
		return true
	default:
		ex.ForcedCount++
		ex.trail = append(ex.trail, decision{taken: false, forced: true})
		ex.assume(nc)
		return false
	}
}

// concretize returns a concrete value for t, forking over all feasible values.
func (ex *Exec) concretize(t *smt.Term) uint64 {
	if t.IsConst() {
		return t.Val
	}
	if ex.in != nil && len(ex.in.spec) > 0 {
		panic(specAbort{"concretize"})
	}
	ex.Concretized++
	for {
		idx := len(ex.trail)
		var hint uint64
		if idx < len(ex.prefix) {
			hint = ex.prefix[idx].hint
			d := ex.prefix[idx]
			ex.trail = append(ex.trail, d)
			eq := ex.eqConst(t, hint)
			if d.taken {
				ex.assume(eq)
				return hint
			}
			ex.assume(ex.ctx.Not(eq))
			continue
		}
		if ex.MaxDepth > 0 && idx >= ex.MaxDepth {
			panic(pathEnd{"unwound", fmt.Sprintf("decision depth %d reached (concretize)", idx)})
		}
		if !ex.modelOK {
			r, m := ex.check(nil, false)
			if r != smt.Sat {
				panic(pathEnd{"unknown", "concretize: pc not sat: " + r.String()})
			}
			ex.model, ex.modelOK = m, true
		}
		hint = smt.Eval(t, ex.model, map[*smt.Term]uint64{})
		eq := ex.eqConst(t, hint)
		other := ex.feasible(ex.ctx.Not(eq))
		if other {
			ex.noteFork()
			alt := append(append([]decision{}, ex.trail...), decision{taken: false, hint: hint})
			ex.alts = append(ex.alts, alt)
			ex.trail = append(ex.trail, decision{taken: true, hint: hint})
		} else {
			ex.ForcedCount++
			ex.trail = append(ex.trail, decision{taken: true, forced: true, hint: hint})
		}
		ex.assume(eq)
		return hint
	}
}

func (ex *Exec) eqConst(t *smt.Term, v uint64) *smt.Term {
	if t.W == 0 {
		return ex.ctx.Eq(t, ex.ctx.Bool(v != 0))
	}
	return ex.ctx.Eq(t, ex.ctx.Const(t.W, v))
}

// ---------------------------------------------------------------------------
// conversions between interpreter values and terms

func (ex *Exec) term(v value) *smt.Term {
	switch v := v.(type) {
	case sym:
		return v.t
	case bool:
		return ex.ctx.Bool(v)
	}
	k, ok := kindOfValue(v)
	if !ok {
		panic(fmt.Sprintf("term: not a scalar: %T", v))
	}
	return ex.ctx.Const(kindWidth(k), uint64(asInt64(v)))
}

// mk wraps a term as a value of kind k, returning a concrete Go value when
// the term is constant.
func mk(t *smt.Term, k types.BasicKind) value {
	if t.IsConst() {
		return concreteOf(k, t.Val)
	}
	if kindWidth(k) != t.W {
		panic(fmt.Sprintf("mk: kind %v width %d term width %d", k, kindWidth(k), t.W))
	}
	return sym{t, k}
}

// condBool turns a bool-or-sym into a Go bool, forking if needed.
func (fr *frame) condBool(v value) bool {
	switch v := v.(type) {
	case bool:
		return v
	case sym:
		return fr.i.ex.branch(v.t)
	}
	panic(fmt.Sprintf("condBool: %T", v))
}

// concInt turns an int-or-sym into a concrete int64, forking over values.
func (i *interpreter) concInt(v value) int64 {
	if s, ok := v.(sym); ok {
		u := i.ex.concretize(s.t)
		return asInt64(concreteOf(s.k, u))
	}
	return asInt64(v)
}

// concValue concretizes a scalar keeping its kind.
func (i *interpreter) concValue(v value) value {
	if s, ok := v.(sym); ok {
		return concreteOf(s.k, i.ex.concretize(s.t))
	}
	return v
}

// ---------------------------------------------------------------------------
// symbolic operators

func (i *interpreter) symBinop(op token.Token, x, y value) value {
	ex := i.ex
	c := ex.ctx
	kx, _ := kindOfValue(x)
	ky, _ := kindOfValue(y)
	tx, ty := ex.term(x), ex.term(y)
	if kx == types.Bool {
		switch op {
		case token.EQL:
			return mk(c.Eq(tx, ty), types.Bool)
		case token.NEQ:
			return mk(c.Not(c.Eq(tx, ty)), types.Bool)
		case token.AND, token.LAND:
			return mk(c.And(tx, ty), types.Bool)
		case token.OR, token.LOR:
			return mk(c.Or(tx, ty), types.Bool)
		}
		panic(fmt.Sprintf("symBinop: bool op %s", op))
	}
	signed := kindSigned(kx)
	switch op {
	case token.SHL, token.SHR:
		// Go: shift count is unsigned or a non-negative signed value (else panic).
		if kindSigned(ky) {
			neg := c.Cmp(smt.OSlt, ty, c.Const(ty.W, 0))
			if ex.branch(neg) {
				panic(runtimeError("negative shift amount"))
			}
		}
		w := tx.W
		var cnt *smt.Term
		switch {
		case ty.W == w:
			cnt = ty
		case ty.W < w:
			cnt = c.Zext(ty, w)
		default:
			big := c.Cmp(smt.OUle, c.Const(ty.W, uint64(w)), ty)
			cnt = c.Ite(big, c.Const(w, uint64(w)), c.Extract(ty, w-1, 0))
		}
		switch {
		case op == token.SHL:
			return mk(c.Bin(smt.OBvShl, tx, cnt), kx)
		case signed:
			return mk(c.Bin(smt.OBvAshr, tx, cnt), kx)
		default:
			return mk(c.Bin(smt.OBvLshr, tx, cnt), kx)
		}
	}
	if tx.W != ty.W {
		panic(fmt.Sprintf("symBinop %s: widths %d %d (%T %T)", op, tx.W, ty.W, x, y))
	}
	switch op {
	case token.ADD:
		return mk(c.Bin(smt.OBvAdd, tx, ty), kx)
	case token.SUB:
		return mk(c.Bin(smt.OBvSub, tx, ty), kx)
	case token.MUL:
		return mk(c.Bin(smt.OBvMul, tx, ty), kx)
	case token.AND:
		return mk(c.Bin(smt.OBvAnd, tx, ty), kx)
	case token.OR:
		return mk(c.Bin(smt.OBvOr, tx, ty), kx)
	case token.XOR:
		return mk(c.Bin(smt.OBvXor, tx, ty), kx)
	case token.AND_NOT:
		return mk(c.Bin(smt.OBvAnd, tx, c.Unary(smt.OBvNot, ty)), kx)
	case token.QUO, token.REM:
		if ex.branch(c.Eq(ty, c.Const(ty.W, 0))) {
			panic(runtimeError("integer divide by zero"))
		}
		var o smt.Op
		switch {
		case op == token.QUO && signed:
			o = smt.OBvSdiv
		case op == token.QUO:
			o = smt.OBvUdiv
		case signed:
			o = smt.OBvSrem
		default:
			o = smt.OBvUrem
		}
		return mk(c.Bin(o, tx, ty), kx)
	case token.EQL:
		return mk(c.Eq(tx, ty), types.Bool)
	case token.NEQ:
		return mk(c.Not(c.Eq(tx, ty)), types.Bool)
	case token.LSS:
		if signed {
			return mk(c.Cmp(smt.OSlt, tx, ty), types.Bool)
		}
		return mk(c.Cmp(smt.OUlt, tx, ty), types.Bool)
	case token.LEQ:
		if signed {
			return mk(c.Cmp(smt.OSle, tx, ty), types.Bool)
		}
		return mk(c.Cmp(smt.OUle, tx, ty), types.Bool)
	case token.GTR:
		if signed {
			return mk(c.Cmp(smt.OSlt, ty, tx), types.Bool)
		}
		return mk(c.Cmp(smt.OUlt, ty, tx), types.Bool)
	case token.GEQ:
		if signed {
			return mk(c.Cmp(smt.OSle, ty, tx), types.Bool)
		}
		return mk(c.Cmp(smt.OUle, ty, tx), types.Bool)
	}
	panic(fmt.Sprintf("symBinop: unsupported %s on %T,%T", op, x, y))
}

// runtimeError is used for Go run-time panics raised by symbolic operations.
type runtimeError string

func (e runtimeError) Error() string { return "runtime error: " + string(e) }
func (e runtimeError) RuntimeError() {}

func (i *interpreter) symUnop(op token.Token, x sym) value {
	c := i.ex.ctx
	switch op {
	case token.SUB:
		return mk(c.Unary(smt.OBvNeg, x.t), x.k)
	case token.XOR:
		return mk(c.Unary(smt.OBvNot, x.t), x.k)
	case token.NOT:
		return mk(c.Not(x.t), types.Bool)
	}
	panic(fmt.Sprintf("symUnop: %s", op))
}

// symConvInt converts a symbolic integer to another integer kind.
func (i *interpreter) symConvInt(x sym, dst types.BasicKind) value {
	c := i.ex.ctx
	return mk(c.Resize(x.t, kindWidth(dst), kindSigned(x.k)), dst)
}

// ---------------------------------------------------------------------------
// strings

func strBytes(v value) []value {
	switch v := v.(type) {
	case string:
		b := make([]value, len(v))
		for i := 0; i < len(v); i++ {
			b[i] = v[i]
		}
		return b
	case symstr:
		return v.b
	}
	panic(fmt.Sprintf("strBytes: %T", v))
}

func strLen(v value) int {
	switch v := v.(type) {
	case string:
		return len(v)
	case symstr:
		return len(v.b)
	}
	panic(fmt.Sprintf("strLen: %T", v))
}

// mkStr builds a string value from bytes; native when fully concrete.
func mkStr(b []value) value {
	conc := true
	for _, x := range b {
		if _, ok := x.(uint8); !ok {
			conc = false
			break
		}
	}
	if conc {
		var sb strings.Builder
		sb.Grow(len(b))
		for _, x := range b {
			sb.WriteByte(x.(uint8))
		}
		return sb.String()
	}
	// strings are immutable: take a private copy
	return symstr{append([]value(nil), b...)}
}

func isStr(v value) bool {
	switch v.(type) {
	case string, symstr:
		return true
	}
	return false
}

// strEqTerm returns the term for x == y over strings.
func (ex *Exec) strEqTerm(x, y value) *smt.Term {
	if strLen(x) != strLen(y) {
		return ex.ctx.False
	}
	bx, by := strBytes(x), strBytes(y)
	r := ex.ctx.True
	for i := range bx {
		r = ex.ctx.And(r, ex.ctx.Eq(ex.term(bx[i]), ex.term(by[i])))
		if r.IsFalse() {
			return r
		}
	}
	return r
}

// strLessTerm returns the term for x < y (lexicographic, bytewise).
func (ex *Exec) strLessTerm(x, y value) *smt.Term {
	bx, by := strBytes(x), strBytes(y)
	c := ex.ctx
	n := min(len(bx), len(by))
	// build from the end: less_i = x[i]<y[i] || (x[i]==y[i] && less_{i+1})
	r := c.Bool(len(bx) < len(by))
	for i := n - 1; i >= 0; i-- {
		tx, ty := ex.term(bx[i]), ex.term(by[i])
		r = c.Or(c.Cmp(smt.OUlt, tx, ty), c.And(c.Eq(tx, ty), r))
	}
	return r
}

func (i *interpreter) symStrBinop(op token.Token, x, y value) value {
	ex := i.ex
	c := ex.ctx
	switch op {
	case token.ADD:
		return mkStr(append(append([]value(nil), strBytes(x)...), strBytes(y)...))
	case token.EQL:
		return mk(ex.strEqTerm(x, y), types.Bool)
	case token.NEQ:
		return mk(c.Not(ex.strEqTerm(x, y)), types.Bool)
	case token.LSS:
		return mk(ex.strLessTerm(x, y), types.Bool)
	case token.GTR:
		return mk(ex.strLessTerm(y, x), types.Bool)
	case token.LEQ:
		return mk(c.Not(ex.strLessTerm(y, x)), types.Bool)
	case token.GEQ:
		return mk(c.Not(ex.strLessTerm(x, y)), types.Bool)
	}
	panic(fmt.Sprintf("symStrBinop: %s", op))
}

// decodeRune decodes one UTF-8 sequence from b (concrete or symbolic bytes),
// forking on the byte classes, with the semantics of utf8.DecodeRune.
func (i *interpreter) decodeRune(b []value) (value, int) {
	if len(b) == 0 {
		return int32(0xFFFD), 0
	}
	allConc := true
	for k := 0; k < len(b) && k < 4; k++ {
		if isSym(b[k]) {
			allConc = false
		}
	}
	if allConc {
		var buf [4]byte
		n := 0
		for k := 0; k < len(b) && k < 4; k++ {
			buf[k] = b[k].(uint8)
			n++
		}
		r, size := decodeRuneBytes(buf[:n])
		return r, size
	}
	ex := i.ex
	c := ex.ctx
	bt := func(k int) *smt.Term { return ex.term(b[k]) }
	in := func(t *smt.Term, lo, hi uint64) *smt.Term {
		return c.And(c.Cmp(smt.OUle, c.Const(8, lo), t), c.Cmp(smt.OUle, t, c.Const(8, hi)))
	}
	z32 := func(t *smt.Term) *smt.Term { return c.Zext(t, 32) }
	shl := func(t *smt.Term, n uint64) *smt.Term { return c.Bin(smt.OBvShl, t, c.Const(32, n)) }
	and := func(t *smt.Term, m uint64) *smt.Term { return c.Bin(smt.OBvAnd, t, c.Const(32, m)) }
	or := func(a, b *smt.Term) *smt.Term { return c.Bin(smt.OBvOr, a, b) }
	bad := func() (value, int) { return int32(0xFFFD), 1 }
	b0 := bt(0)
	if ex.branch(c.Cmp(smt.OUlt, b0, c.Const(8, 0x80))) {
		return mk(z32(b0), types.Int32), 1
	}
	// two-byte: C2..DF
	if ex.branch(in(b0, 0xC2, 0xDF)) {
		if len(b) < 2 || !ex.branch(in(bt(1), 0x80, 0xBF)) {
			return bad()
		}
		return mk(or(shl(and(z32(b0), 0x1F), 6), and(z32(bt(1)), 0x3F)), types.Int32), 2
	}
	// three-byte: E0..EF with second-byte ranges
	if ex.branch(in(b0, 0xE0, 0xEF)) {
		if len(b) < 3 {
			return bad()
		}
		lo, hi := uint64(0x80), uint64(0xBF)
		if ex.branch(c.Eq(b0, c.Const(8, 0xE0))) {
			lo = 0xA0
		} else if ex.branch(c.Eq(b0, c.Const(8, 0xED))) {
			hi = 0x9F
		}
		if !ex.branch(in(bt(1), lo, hi)) || !ex.branch(in(bt(2), 0x80, 0xBF)) {
			return bad()
		}
		return mk(or(or(shl(and(z32(b0), 0x0F), 12), shl(and(z32(bt(1)), 0x3F), 6)), and(z32(bt(2)), 0x3F)), types.Int32), 3
	}
	if ex.branch(in(b0, 0xF0, 0xF4)) {
		if len(b) < 4 {
			return bad()
		}
		lo, hi := uint64(0x80), uint64(0xBF)
		if ex.branch(c.Eq(b0, c.Const(8, 0xF0))) {
			lo = 0x90
		} else if ex.branch(c.Eq(b0, c.Const(8, 0xF4))) {
			hi = 0x8F
		}
		if !ex.branch(in(bt(1), lo, hi)) || !ex.branch(in(bt(2), 0x80, 0xBF)) || !ex.branch(in(bt(3), 0x80, 0xBF)) {
			return bad()
		}
		r := or(or(shl(and(z32(b0), 0x07), 18), shl(and(z32(bt(1)), 0x3F), 12)),
			or(shl(and(z32(bt(2)), 0x3F), 6), and(z32(bt(3)), 0x3F)))
		return mk(r, types.Int32), 4
	}
	return bad()
}

// encodeRune returns the UTF-8 bytes of r (forking on the size class when symbolic).
func (i *interpreter) encodeRune(r value) []value {
	s, ok := r.(sym)
	if !ok {
		str := string(rune(asInt64(r)))
		return strBytes(str)
	}
	ex := i.ex
	c := ex.ctx
	t := c.Resize(s.t, 32, kindSigned(s.k))
	if s.t.W > 32 {
		// out of range values become U+FFFD
		fits := c.Eq(c.Resize(t, s.t.W, kindSigned(s.k)), s.t)
		if !ex.branch(fits) {
			return strBytes("�")
		}
	}
	cst := func(v uint64) *smt.Term { return c.Const(32, v) }
	b8 := func(x *smt.Term) value { return mk(c.Extract(x, 7, 0), types.Uint8) }
	shr := func(x *smt.Term, n uint64) *smt.Term { return c.Bin(smt.OBvLshr, x, cst(n)) }
	orc := func(x *smt.Term, v uint64) *smt.Term { return c.Bin(smt.OBvOr, x, cst(v)) }
	andc := func(x *smt.Term, v uint64) *smt.Term { return c.Bin(smt.OBvAnd, x, cst(v)) }
	if ex.branch(c.Cmp(smt.OUle, t, cst(0x7F))) {
		return []value{b8(t)}
	}
	if ex.branch(c.Cmp(smt.OUle, t, cst(0x7FF))) {
		return []value{b8(orc(shr(t, 6), 0xC0)), b8(orc(andc(t, 0x3F), 0x80))}
	}
	surr := c.And(c.Cmp(smt.OUle, cst(0xD800), t), c.Cmp(smt.OUle, t, cst(0xDFFF)))
	if ex.branch(c.Or(surr, c.Cmp(smt.OUlt, cst(0x10FFFF), t))) {
		return strBytes("�")
	}
	if ex.branch(c.Cmp(smt.OUle, t, cst(0xFFFF))) {
		return []value{b8(orc(shr(t, 12), 0xE0)), b8(orc(andc(shr(t, 6), 0x3F), 0x80)), b8(orc(andc(t, 0x3F), 0x80))}
	}
	return []value{b8(orc(shr(t, 18), 0xF0)), b8(orc(andc(shr(t, 12), 0x3F), 0x80)),
		b8(orc(andc(shr(t, 6), 0x3F), 0x80)), b8(orc(andc(t, 0x3F), 0x80))}
}

type symStringIter struct {
	i   *interpreter
	b   []value
	pos int
}

func (it *symStringIter) next() tuple {
	okv := make(tuple, 3)
	if it.pos >= len(it.b) {
		okv[0] = false
		return okv
	}
	r, n := it.i.decodeRune(it.b[it.pos:])
	okv[0] = true
	okv[1] = it.pos
	okv[2] = r
	it.pos += n
	return okv
}

// ---------------------------------------------------------------------------
// symbolic indexing

// indexRead returns base[idx] for symbolic idx as an ite chain (scalars only).
func (i *interpreter) indexRead(base []value, idx sym) value {
	ex := i.ex
	c := ex.ctx
	n := len(base)
	i.boundsCheck(idx, n)
	if n == 0 {
		panic("indexRead on empty after bounds check")
	}
	k, ok := kindOfValue(base[0])
	if !ok {
		// non-scalar elements: concretize the index
		return base[i.concInt(idx)]
	}
	allConc := true
	for _, e := range base {
		if ke, ok := kindOfValue(e); !ok || ke != k {
			return base[i.concInt(idx)]
		}
		if isSym(e) {
			allConc = false
		}
	}
	if ex.forkSmallTables && allConc && n <= 4 {
		// small constant table (e.g. the operator table): case split instead of an ite
		return base[i.concInt(idx)]
	}
	if w := idx.t.W; w < 63 && n > 1<<w {
		n = 1 << w // higher elements are unreachable for this index type
	}
	r := ex.term(base[n-1])
	for j := n - 2; j >= 0; j-- {
		r = c.Ite(c.Eq(idx.t, c.Const(idx.t.W, uint64(j))), ex.term(base[j]), r)
	}
	return mk(r, k)
}

// indexWrite performs base[idx] = v for symbolic idx.
func (i *interpreter) indexWrite(base []value, idx sym, v value) {
	ex := i.ex
	c := ex.ctx
	n := len(base)
	i.boundsCheck(idx, n)
	k, ok := kindOfValue(v)
	if !ok {
		i.writeCell(&base[i.concInt(idx)], v)
		return
	}
	tv := ex.term(v)
	if w := idx.t.W; w < 63 && n > 1<<w {
		n = 1 << w
	}
	for j := 0; j < n; j++ {
		if ke, ok := kindOfValue(base[j]); !ok || ke != k {
			panic(fmt.Sprintf("indexWrite: element %d has kind %T, storing %T", j, base[j], v))
		}
		i.writeCell(&base[j], mk(c.Ite(c.Eq(idx.t, c.Const(idx.t.W, uint64(j))), tv, ex.term(base[j])), k))
	}
}

// boundsCheck forks on 0 <= idx < n and panics like Go on the failing side.
func (i *interpreter) boundsCheck(idx sym, n int) {
	ex := i.ex
	c := ex.ctx
	var inb *smt.Term
	w := idx.t.W
	switch {
	case kindSigned(idx.k):
		if w < 64 && uint64(n) >= uint64(1)<<(w-1) {
			inb = c.Cmp(smt.OSle, c.Const(w, 0), idx.t) // every non-negative value is in range
		} else {
			inb = c.And(c.Cmp(smt.OSle, c.Const(w, 0), idx.t), c.Cmp(smt.OSlt, idx.t, c.Const(w, uint64(n))))
		}
	case w < 64 && uint64(n) >= uint64(1)<<w:
		inb = c.True // the index type cannot exceed the length
	default:
		inb = c.Cmp(smt.OUlt, idx.t, c.Const(w, uint64(n)))
	}
	if !ex.branch(inb) {
		panic(runtimeError(fmt.Sprintf("index out of range [symbolic] with length %d", n)))
	}
}

// containsSym reports whether v (shallowly walked through aggregates) holds a symbolic scalar.
func containsSym(v value) bool {
	switch v := v.(type) {
	case sym, symstr:
		return true
	case structure:
		for _, e := range v {
			if containsSym(e) {
				return true
			}
		}
	case array:
		for _, e := range v {
			if containsSym(e) {
				return true
			}
		}
	case iface:
		return containsSym(v.v)
	}
	return false
}
