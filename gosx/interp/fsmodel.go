package interp

// A small in-engine file system and environment for harnesses that execute
// garble's clean-up / ownership logic (C19). Paths must be concrete strings.
// Every mutation is logged. The model: a tree of directories and files with
// byte contents; no permissions, no symlinks, no partial writes.

import (
	"fmt"
	"go/types"
	"path/filepath"
	"sort"
	"strings"

	"golang.org/x/tools/go/ssa"
)

type fsNode struct {
	dir  bool
	data []value
}

type fsState struct {
	nodes map[string]*fsNode
	log   []string
	tmpN  int
	muts  int // mutations so far
	crashAt int // -1: no crash point armed
	open  map[*value]*fsOpen // files handed out by os.CreateTemp / os.Open
}

// mut records a mutation that has happened. With a crash point armed
// (symx.FSCrashAfter), the mutation that would exceed it does not happen:
// fsCrashCheck, called first by every mutating operation, ends the "process"
// with a Go panic that the harness recovers.
func (fs *fsState) mut(op string) {
	fs.log = append(fs.log, op)
	fs.muts++
}

func (fs *fsState) crashCheck() {
	if fs.crashAt >= 0 && fs.muts >= fs.crashAt {
		fs.crashAt = -1
		panic(targetPanic{iface{t: types.Typ[types.String], v: "symx: process killed"}})
	}
}

type fsOpen struct {
	path string
	off  int
}

// newFile allocates an *os.File value that stands for path in the model.
func (i *interpreter) newFile(path string) *value {
	pkg := i.prog.ImportedPackage("os")
	if pkg == nil || pkg.Type("File") == nil {
		unmodelled("os.File not loaded")
	}
	p := new(value)
	*p = zero(pkg.Type("File").Type().Underlying())
	fs := i.ex.fsm()
	if fs.open == nil {
		fs.open = map[*value]*fsOpen{}
	}
	fs.open[p] = &fsOpen{path: path}
	return p
}

func (i *interpreter) openFile(v value) (*fsOpen, *fsNode) {
	p, ok := v.(*value)
	if !ok || i.ex.fs == nil {
		return nil, nil
	}
	o := i.ex.fs.open[p]
	if o == nil {
		return nil, nil
	}
	return o, i.ex.fs.nodes[o.path]
}

func (ex *Exec) fsm() *fsState {
	if ex.fs == nil {
		ex.fs = &fsState{crashAt: -1, nodes: map[string]*fsNode{"/": {dir: true}, "/tmp": {dir: true}, "/cwd": {dir: true}, "/fsroot": {dir: true}}}
		ex.noteOnce("file system and environment are an in-engine model (directories, files with contents; no permissions, symlinks or partial writes)")
	}
	return ex.fs
}

func fsPath(v value) string {
	s, ok := v.(string)
	if !ok {
		unmodelled("file-system call with a symbolic path")
	}
	if s == "" {
		return ""
	}
	if !filepath.IsAbs(s) {
		s = filepath.Join("/cwd", s)
	}
	return filepath.Clean(s)
}

func (fs *fsState) mkdirAll(p string) {
	for q := p; q != "/" && q != "."; q = filepath.Dir(q) {
		if n, ok := fs.nodes[q]; ok && n.dir {
			break
		}
		fs.nodes[q] = &fsNode{dir: true}
	}
}

// fsErr returns an error value that errors.Is(err, fs.ErrNotExist/ErrExist) recognises.
func (i *interpreter) fsErr(name string) value {
	pkg := i.prog.ImportedPackage("io/fs")
	if pkg == nil {
		unmodelled("io/fs not loaded")
	}
	g := pkg.Var(name)
	cell, ok := i.globals[g]
	if !ok {
		cell, ok = i.shared[g]
	}
	if !ok || *cell == nil {
		unmodelled("io/fs.%s not initialised", name)
	}
	return *cell
}

func noErr() value { return iface{} }

func init() {
	for k, v := range map[string]externalFn{
		"os.Getwd": func(fr *frame, args []value) value { return tuple{"/cwd", noErr()} },
		"os.Executable": func(fr *frame, args []value) value { return tuple{"/usr/local/bin/garble", noErr()} },
		"os.UserCacheDir": func(fr *frame, args []value) value { return tuple{"/home/user/.cache", noErr()} },
		"os.Setenv": func(fr *frame, args []value) value {
			if fr.i.env == nil {
				fr.i.env = map[string]value{}
			}
			fr.i.env[argString(args[0])] = args[1]
			fr.i.ex.fsm().log = append(fr.i.ex.fsm().log, "setenv "+argString(args[0]))
			return noErr()
		},
		"os.Unsetenv": func(fr *frame, args []value) value {
			delete(fr.i.env, argString(args[0]))
			return noErr()
		},
		"os.MkdirAll": func(fr *frame, args []value) value {
			fs := fr.i.ex.fsm()
			fs.crashCheck()
			p := fsPath(args[0])
			if n, ok := fs.nodes[p]; ok && !n.dir {
				return fr.i.fsErr("ErrExist")
			}
			fs.mkdirAll(p)
			fs.mut("mkdirall "+p)
			return noErr()
		},
		"os.Mkdir": func(fr *frame, args []value) value {
			fs := fr.i.ex.fsm()
			fs.crashCheck()
			p := fsPath(args[0])
			if _, ok := fs.nodes[p]; ok {
				return fr.i.fsErr("ErrExist")
			}
			if n, ok := fs.nodes[filepath.Dir(p)]; !ok || !n.dir {
				return fr.i.fsErr("ErrNotExist")
			}
			fs.nodes[p] = &fsNode{dir: true}
			fs.mut("mkdir "+p)
			return noErr()
		},
		"os.MkdirTemp": func(fr *frame, args []value) value {
			fs := fr.i.ex.fsm()
			fs.crashCheck()
			dir := argString(args[0])
			if dir == "" {
				dir = "/tmp"
				if t, ok := fr.i.env["TMPDIR"].(string); ok && t != "" {
					dir = t
				}
			}
			fs.tmpN++
			pat := argString(args[1])
			name := strings.Replace(pat, "*", fmt.Sprint(fs.tmpN), 1)
			if name == pat {
				name = pat + fmt.Sprint(fs.tmpN)
			}
			p := filepath.Join(fsPath(dir), name)
			fs.mkdirAll(p)
			fs.mut("mkdirtemp "+p)
			return tuple{p, noErr()}
		},
		"os.RemoveAll": func(fr *frame, args []value) value {
			fs := fr.i.ex.fsm()
			fs.crashCheck()
			p := fsPath(args[0])
			fs.mut("removeall "+p)
			if p == "" {
				return noErr() // os.RemoveAll("") is a silent no-op
			}
			for q := range fs.nodes {
				if q == p || strings.HasPrefix(q, p+"/") {
					delete(fs.nodes, q)
				}
			}
			return noErr()
		},
		"os.Remove": func(fr *frame, args []value) value {
			fs := fr.i.ex.fsm()
			fs.crashCheck()
			p := fsPath(args[0])
			if _, ok := fs.nodes[p]; !ok {
				return fr.i.fsErr("ErrNotExist")
			}
			for q := range fs.nodes {
				if strings.HasPrefix(q, p+"/") {
					return fr.i.fsErr("ErrExist") // directory not empty
				}
			}
			delete(fs.nodes, p)
			fs.mut("remove "+p)
			return noErr()
		},
		"os.ReadDir": func(fr *frame, args []value) value {
			fs := fr.i.ex.fsm()
			p := fsPath(args[0])
			n, ok := fs.nodes[p]
			if !ok {
				return tuple{[]value(nil), fr.i.fsErr("ErrNotExist")}
			}
			if !n.dir {
				return tuple{[]value(nil), fr.i.fsErr("ErrInvalid")}
			}
			var names []string
			for q := range fs.nodes {
				if filepath.Dir(q) == p && q != p {
					names = append(names, filepath.Base(q))
				}
			}
			sort.Strings(names)
			out := make([]value, len(names))
			for k := range names {
				out[k] = iface{} // entries are only counted by garble
			}
			return tuple{out, noErr()}
		},
		"os.Lstat": fsStat,
		"os.Stat":  fsStat,
		"os.WriteFile": func(fr *frame, args []value) value {
			fs := fr.i.ex.fsm()
			p := fsPath(args[0])
			if n, ok := fs.nodes[filepath.Dir(p)]; !ok || !n.dir {
				return fr.i.fsErr("ErrNotExist")
			}
			if n, ok := fs.nodes[p]; ok && n.dir {
				return fr.i.fsErr("ErrInvalid")
			}
			// like the real one: create or truncate, then write
			fs.crashCheck()
			fs.nodes[p] = &fsNode{}
			fs.mut("truncate " + p)
			if data := args[1].([]value); len(data) > 0 {
				fs.crashCheck()
				fs.nodes[p] = &fsNode{data: append([]value(nil), data...)}
				fs.mut("write " + p)
			}
			return noErr()
		},
		"os.Create": func(fr *frame, args []value) value {
			fs := fr.i.ex.fsm()
			p := fsPath(args[0])
			if n, ok := fs.nodes[filepath.Dir(p)]; !ok || !n.dir {
				return tuple{(*value)(nil), fr.i.fsErr("ErrNotExist")}
			}
			if n, ok := fs.nodes[p]; ok && n.dir {
				return tuple{(*value)(nil), fr.i.fsErr("ErrInvalid")}
			}
			fs.crashCheck()
			fs.nodes[p] = &fsNode{}
			fs.mut("truncate " + p)
			return tuple{fr.i.newFile(p), noErr()}
		},
		"os.Rename": func(fr *frame, args []value) value {
			fs := fr.i.ex.fsm()
			from, to := fsPath(args[0]), fsPath(args[1])
			n, ok := fs.nodes[from]
			if !ok {
				return fr.i.fsErr("ErrNotExist")
			}
			if n.dir {
				unmodelled("os.Rename of a directory")
			}
			if d, ok := fs.nodes[filepath.Dir(to)]; !ok || !d.dir {
				return fr.i.fsErr("ErrNotExist")
			}
			fs.crashCheck()
			delete(fs.nodes, from)
			fs.nodes[to] = n // atomic replacement
			fs.mut("rename " + from + " " + to)
			return noErr()
		},
		"os.CreateTemp": func(fr *frame, args []value) value {
			fs := fr.i.ex.fsm()
			fs.crashCheck()
			dir := fsPath(args[0])
			if args[0].(string) == "" {
				dir = "/tmp"
			}
			if n, ok := fs.nodes[dir]; !ok || !n.dir {
				return tuple{(*value)(nil), fr.i.fsErr("ErrNotExist")}
			}
			fs.tmpN++
			pat := args[1].(string)
			name := pat + fmt.Sprint(fs.tmpN)
			if k := strings.LastIndexByte(pat, '*'); k >= 0 {
				name = pat[:k] + fmt.Sprint(fs.tmpN) + pat[k+1:]
			}
			p := filepath.Join(dir, name)
			fs.nodes[p] = &fsNode{}
			fs.mut("create "+p)
			return tuple{fr.i.newFile(p), noErr()}
		},
		"os.Open": func(fr *frame, args []value) value {
			fs := fr.i.ex.fsm()
			p := fsPath(args[0])
			if n, ok := fs.nodes[p]; !ok || n.dir {
				return tuple{(*value)(nil), fr.i.fsErr("ErrNotExist")}
			}
			return tuple{fr.i.newFile(p), noErr()}
		},
		"(*os.File).Name": func(fr *frame, args []value) value {
			if o, _ := fr.i.openFile(args[0]); o != nil {
				return o.path
			}
			return "/dev/std"
		},
		"(*os.File).Read": func(fr *frame, args []value) value {
			o, n := fr.i.openFile(args[0])
			if o == nil || n == nil {
				unmodelled("read from a file that is not in the file-system model")
			}
			buf := args[1].([]value)
			if o.off >= len(n.data) {
				pkg := fr.i.prog.ImportedPackage("io")
				cell, ok := fr.i.globals[pkg.Var("EOF")]
				if !ok {
					cell = fr.i.shared[pkg.Var("EOF")]
				}
				return tuple{0, *cell}
			}
			k := copy(buf, n.data[o.off:])
			o.off += k
			return tuple{k, noErr()}
		},
		"os.ReadFile": func(fr *frame, args []value) value {
			fs := fr.i.ex.fsm()
			p := fsPath(args[0])
			n, ok := fs.nodes[p]
			if !ok {
				return tuple{[]value(nil), fr.i.fsErr("ErrNotExist")}
			}
			if n.dir {
				return tuple{[]value(nil), fr.i.fsErr("ErrInvalid")}
			}
			return tuple{append([]value(nil), n.data...), noErr()}
		},
		// symx helpers to set up and inspect the model
		symxPath + ".FSCrashAfter": func(fr *frame, args []value) value {
			fs := fr.i.ex.fsm()
			n := int(asInt64(args[0]))
			if n < 0 {
				fs.crashAt = -1
			} else {
				fs.crashAt = fs.muts + n
			}
			return nil
		},
		symxPath + ".FSRoot": func(fr *frame, args []value) value { fr.i.ex.fsm(); return "/fsroot" },
		symxPath + ".FSMkdir": func(fr *frame, args []value) value {
			fr.i.ex.fsm().mkdirAll(fsPath(args[0]))
			return nil
		},
		symxPath + ".FSWriteFile": func(fr *frame, args []value) value {
			fs := fr.i.ex.fsm()
			p := fsPath(args[0])
			fs.mkdirAll(filepath.Dir(p))
			fs.nodes[p] = &fsNode{data: strBytes(args[1])}
			return nil
		},
		symxPath + ".FSExists": func(fr *frame, args []value) value {
			_, ok := fr.i.ex.fsm().nodes[fsPath(args[0])]
			return ok
		},
		symxPath + ".FSReadFile": func(fr *frame, args []value) value {
			n, ok := fr.i.ex.fsm().nodes[fsPath(args[0])]
			if !ok || n.dir {
				return tuple{"", false}
			}
			return tuple{mkStr(n.data), true}
		},
		symxPath + ".FSList": func(fr *frame, args []value) value {
			fs := fr.i.ex.fsm()
			p := fsPath(args[0])
			var names []string
			for q := range fs.nodes {
				if strings.HasPrefix(q, p+"/") {
					names = append(names, q)
				}
			}
			sort.Strings(names)
			out := make([]value, len(names))
			for k, n := range names {
				out[k] = n
			}
			return out
		},
		symxPath + ".Setenv": func(fr *frame, args []value) value {
			if fr.i.env == nil {
				fr.i.env = map[string]value{}
			}
			fr.i.env[argString(args[0])] = args[1]
			return nil
		},
	} {
		externals[k] = v
	}
}

func fsStat(fr *frame, args []value) value {
	fs := fr.i.ex.fsm()
	p := fsPath(args[0])
	n, ok := fs.nodes[p]
	if !ok {
		return tuple{iface{}, fr.i.fsErr("ErrNotExist")}
	}
	return tuple{fr.i.fileInfo(filepath.Base(p), n), noErr()}
}

// fileInfo builds an *os.fileStat (the real type, so its real methods run)
// carrying name, size and the directory bit.
func (i *interpreter) fileInfo(name string, n *fsNode) value {
	pkg := i.prog.ImportedPackage("os")
	if pkg == nil || pkg.Type("fileStat") == nil {
		return iface{}
	}
	named := pkg.Type("fileStat").Type()
	st, ok := named.Underlying().(*types.Struct)
	if !ok {
		return iface{}
	}
	v := zero(st).(structure)
	for k := 0; k < st.NumFields(); k++ {
		switch st.Field(k).Name() {
		case "name":
			v[k] = name
		case "size":
			v[k] = int64(len(n.data))
		case "mode":
			mode := uint32(0o644)
			if n.dir {
				mode = 1<<31 | 0o755 // fs.ModeDir
			}
			v[k] = mode
		}
	}
	var cell value = v
	return iface{t: types.NewPointer(named), v: &cell}
}

var _ = types.Typ
var _ *ssa.Function
