package interp

// Intrinsics: the symx harness API, random-source interception, and the
// pieces of runtime/sync/atomic/bytealg that pure-Go library code needs.

import (
	"crypto/sha256"
	"fmt"
	"go/token"
	"go/types"
	"math/bits"
	"os"
	"runtime"
	"strings"
	"sync"
	"unsafe"

	"golang.org/x/tools/go/ssa"

	"gosx/smt"
)

const symxPath = "mvdan.cc/garble/internal/symx"

// notHandled is returned by an external that declines a call: the real body runs.
type notHandled struct{}

type fnInfo struct {
	name   string
	ext    externalFn
	garble bool // belongs to mvdan.cc/garble (counted in evidence)
	pure   bool // external without side effects and without forks
}

var fnInfoCache sync.Map // *ssa.Function -> *fnInfo

func infoOf(fn *ssa.Function) *fnInfo {
	if v, ok := fnInfoCache.Load(fn); ok {
		return v.(*fnInfo)
	}
	name := fn.String()
	fi := &fnInfo{name: name}
	if fn.Parent() == nil {
		fi.ext = externals[name]
		if fi.ext == nil {
			// generic instances: strip type arguments "f[int]" -> "f"
			if k := strings.IndexByte(name, '['); k > 0 && fn.Origin() != nil {
				fi.ext = externals[fn.Origin().String()]
			}
		}
	}
	fi.pure = pureExternals[name]
	if fn.Pkg != nil {
		p := fn.Pkg.Pkg.Path()
		fi.garble = strings.HasPrefix(p, "mvdan.cc/garble") && p != symxPath
	} else if o := fn.Origin(); o != nil && o.Pkg != nil {
		p := o.Pkg.Pkg.Path()
		fi.garble = strings.HasPrefix(p, "mvdan.cc/garble") && p != symxPath
	}
	if fi.garble && fn.Prog != nil && fn.Pos().IsValid() {
		// harness code injected into garble's packages is not "code under check"
		if f := fn.Prog.Fset.Position(fn.Pos()).Filename; strings.Contains(f, "zz_verif") {
			fi.garble = false
		}
	}
	v, _ := fnInfoCache.LoadOrStore(fn, fi)
	return v.(*fnInfo)
}

func init() {
	for k, v := range map[string]externalFn{
		// --- symx
		symxPath + ".Byte":     symxScalar(types.Uint8, "byte"),
		symxPath + ".Int":      symxScalar(types.Int, "int"),
		symxPath + ".Int32":    symxScalar(types.Int32, "int32"),
		symxPath + ".Uint32":   symxScalar(types.Uint32, "uint32"),
		symxPath + ".Uint64":   symxScalar(types.Uint64, "uint64"),
		symxPath + ".Uint16":   symxScalar(types.Uint16, "uint16"),
		symxPath + ".Bool":     symxScalar(types.Bool, "bool"),
		symxPath + ".Bytes":    symxBytes,
		symxPath + ".String":   symxString,
		symxPath + ".Choose":   symxChoose,
		symxPath + ".Assume":   symxAssume,
		symxPath + ".Assert":   symxAssert,
		symxPath + ".Fail":     symxFail,
		symxPath + ".Reach":    symxReach,
		symxPath + ".Unsupported": func(fr *frame, args []value) value {
			panic(pathEnd{"unmodelled", "harness oracle: " + argString(args[0])})
		},
		symxPath + ".Stub":     symxStub,
		symxPath + ".Unstub":   symxUnstub,
		symxPath + ".Observe":  symxObserve,
		symxPath + ".Note":     symxNote,
		symxPath + ".Symbolic": func(fr *frame, args []value) value { return true },
		symxPath + ".IsConcrete": func(fr *frame, args []value) value {
			return !containsSymDeep(args[0])
		},
		symxPath + ".MapOrder": func(fr *frame, args []value) value {
			fr.i.ex.symMapOrder = args[0].(bool)
			return nil
		},
		symxPath + ".MapOrderOpts": func(fr *frame, args []value) value {
			ex := fr.i.ex
			ex.mapOrderMin, ex.mapOrderFull, ex.mapOrderSticky = int(args[0].(int)), int(args[1].(int)), args[2].(bool)
			ex.notes = append(ex.notes, fmt.Sprintf("map iteration order: maps of >= %d entries, all permutations up to %d entries (identity, reversal, rotations above), sticky per map object = %v", ex.mapOrderMin, ex.mapOrderFull, ex.mapOrderSticky))
			return nil
		},
		symxPath + ".IntOfLit":   symxIntOfLit,
		symxPath + ".BytesOfLit": symxBytesOfLit,
		symxPath + ".Digest":     symxDigest,
		symxPath + ".DigestPrefixFree": func(fr *frame, args []value) value {
			fr.i.ex.digestPrefix = int(asInt64(args[0]))
			if fr.i.ex.digestPrefix > 0 {
				fr.i.ex.noteOnce(fmt.Sprintf("assumed: no two different inputs share the first %d bytes of their sha256 digest", fr.i.ex.digestPrefix))
			}
			return nil
		},
		symxPath + ".DigestClass": func(fr *frame, args []value) value {
			fr.i.ex.digestIdx, fr.i.ex.digestMod, fr.i.ex.digestRem = int(asInt64(args[0])), uint64(asInt64(args[1])), uint64(asInt64(args[2]))
			if fr.i.ex.digestMod > 0 {
				fr.i.ex.noteOnce(fmt.Sprintf("assumed: byte %d of every symbolic sha256 digest is %d modulo %d (one name-length class)", fr.i.ex.digestIdx, fr.i.ex.digestRem, fr.i.ex.digestMod))
			}
			return nil
		},
		symxPath + ".Concretize": func(fr *frame, args []value) value { return fr.i.concValue(args[0]) },
		symxPath + ".Ite":        symxIte,
		symxPath + ".And": func(fr *frame, args []value) value {
			ex := fr.i.ex
			return mk(ex.ctx.And(ex.term(args[0]), ex.term(args[1])), types.Bool)
		},
		symxPath + ".Or": func(fr *frame, args []value) value {
			ex := fr.i.ex
			return mk(ex.ctx.Or(ex.term(args[0]), ex.term(args[1])), types.Bool)
		},

		"(*crypto/internal/fips140/sha256.Digest).Reset":     shaReset,
		"(*crypto/internal/fips140/sha256.Digest).Write":     shaWrite,
		"(*crypto/internal/fips140/sha256.Digest).Sum":       shaSum,
		"(*crypto/internal/fips140/sha256.Digest).Size":      func(fr *frame, args []value) value { return 32 },
		"(*crypto/internal/fips140/sha256.Digest).BlockSize": func(fr *frame, args []value) value { return 64 },
		"crypto/internal/fips140/sha256.New": func(fr *frame, args []value) value {
			var cell value = structure{}
			return &cell
		},
		"crypto/internal/boring.Enabled": nil,

		"mvdan.cc/garble/internal/ctrlflow.setUnexportedField": setUnexportedField,

		// --- go/constant integers holding a symbolic value (e.g. dispatcher keys in ssa.Const):
		// their decimal text is a literal marker, like the asthelper literals below
		"(go/constant.int64Val).String": func(fr *frame, args []value) value {
			if !containsSymDeep(args[0]) {
				return notHandled{}
			}
			return fr.i.ex.newSymLit(args[0])
		},
		// --- asthelper literals with symbolic arguments
		"mvdan.cc/garble/internal/asthelper.IntLit":    symLitExt(false),
		"mvdan.cc/garble/internal/asthelper.UintLit":   symLitExt(false),
		"mvdan.cc/garble/internal/asthelper.StringLit": symLitExt(true),
		symxPath + ".RewindDraws": func(fr *frame, args []value) value {
			ex := fr.i.ex
			ex.rewound, ex.rewoundEnd = 0, len(ex.draws)
			return nil
		},
		symxPath + ".ForkSmallTables": func(fr *frame, args []value) value {
			fr.i.ex.forkSmallTables = args[0].(bool)
			return nil
		},
		symxPath + ".DrawPolicy": func(fr *frame, args []value) value {
			fr.i.ex.drawPolicy = args[0]
			return nil
		},

		// --- math/rand
		"(*math/rand.Rand).Int63":   randDraw("Int63", types.Int64, 63, false),
		"(*math/rand.Rand).Uint32":  randDraw("Uint32", types.Uint32, 32, false),
		"(*math/rand.Rand).Uint64":  randDraw("Uint64", types.Uint64, 64, false),
		"(*math/rand.Rand).Int31":   randDraw("Int31", types.Int32, 31, false),
		"(*math/rand.Rand).Int":     randDraw("Int", types.Int, 63, false),
		"(*math/rand.Rand).Int63n":  randDrawN("Int63n", types.Int64, false),
		"(*math/rand.Rand).Int31n":  randDrawN("Int31n", types.Int32, false),
		"(*math/rand.Rand).int31n":  randDrawN("int31n", types.Int32, false),
		"(*math/rand.Rand).Intn":    randDrawN("Intn", types.Int, false),
		"(*math/rand.Rand).Read":    randRead(false),
		"(*math/rand.Rand).Float64": func(fr *frame, args []value) value { unmodelled("(*rand.Rand).Float64"); return nil },
		"(*math/rand.Rand).Float32": randFloat32,
		"(*math/rand.Rand).Perm":    randPerm,
		"(*math/rand.Rand).Seed":    func(fr *frame, args []value) value { return nil },
		"math/rand.Int63":           randDraw("Int63", types.Int64, 63, true),
		"math/rand.Uint32":          randDraw("Uint32", types.Uint32, 32, true),
		"math/rand.Uint64":          randDraw("Uint64", types.Uint64, 64, true),
		"math/rand.Int31":           randDraw("Int31", types.Int32, 31, true),
		"math/rand.Int":             randDraw("Int", types.Int, 63, true),
		"math/rand.Int63n":          randDrawN("Int63n", types.Int64, true),
		"math/rand.Int31n":          randDrawN("Int31n", types.Int32, true),
		"math/rand.Intn":            randDrawN("Intn", types.Int, true),
		"math/rand.Read":            randRead(true),
		"math/rand.Seed":            func(fr *frame, args []value) value { return nil },

		// --- sync
		"(*sync.Mutex).Lock":      extNop,
		"(*sync.Mutex).Unlock":    extNop,
		"(*sync.Mutex).TryLock":   func(fr *frame, args []value) value { return true },
		"(*sync.RWMutex).Lock":    extNop,
		"(*sync.RWMutex).Unlock":  extNop,
		"(*sync.RWMutex).RLock":   extNop,
		"(*sync.RWMutex).RUnlock": extNop,
		"(*sync.Once).Do":         syncOnceDo,
		"(*sync.Pool).Get":        syncPoolGet,
		"(*sync.Pool).Put":        extNop,
		"(*sync.WaitGroup).Add":   extNop,
		"(*sync.WaitGroup).Done":  extNop,
		"(*sync.WaitGroup).Wait":  extNop,

		// --- sync/atomic
		"sync/atomic.LoadInt32":    atomicLoad,
		"sync/atomic.LoadInt64":    atomicLoad,
		"sync/atomic.LoadUint32":   atomicLoad,
		"sync/atomic.LoadUint64":   atomicLoad,
		"sync/atomic.LoadUintptr":  atomicLoad,
		"sync/atomic.LoadPointer":  atomicLoad,
		"sync/atomic.StoreInt32":   atomicStore,
		"sync/atomic.StoreInt64":   atomicStore,
		"sync/atomic.StoreUint32":  atomicStore,
		"sync/atomic.StoreUint64":  atomicStore,
		"sync/atomic.StoreUintptr": atomicStore,
		"sync/atomic.StorePointer": atomicStore,
		"sync/atomic.AddInt32":     atomicAdd,
		"sync/atomic.AddInt64":     atomicAdd,
		"sync/atomic.AddUint32":    atomicAdd,
		"sync/atomic.AddUint64":    atomicAdd,
		"sync/atomic.AddUintptr":   atomicAdd,
		"sync/atomic.CompareAndSwapInt32":   atomicCAS,
		"sync/atomic.CompareAndSwapInt64":   atomicCAS,
		"sync/atomic.CompareAndSwapUint32":  atomicCAS,
		"sync/atomic.CompareAndSwapUint64":  atomicCAS,
		"sync/atomic.CompareAndSwapUintptr": atomicCAS,
		"sync/atomic.CompareAndSwapPointer": atomicCAS,
		"sync/atomic.SwapInt32":             atomicSwap,
		"sync/atomic.SwapInt64":             atomicSwap,
		"sync/atomic.SwapUint32":            atomicSwap,
		"sync/atomic.SwapUint64":            atomicSwap,
		"sync/atomic.SwapPointer":           atomicSwap,
		"sync/atomic.OrUint32":  atomicBit(token.OR),
		"sync/atomic.OrInt32":   atomicBit(token.OR),
		"sync/atomic.OrUint64":  atomicBit(token.OR),
		"sync/atomic.OrInt64":   atomicBit(token.OR),
		"sync/atomic.OrUintptr": atomicBit(token.OR),
		"sync/atomic.AndUint32": atomicBit(token.AND),
		"sync/atomic.AndInt32":  atomicBit(token.AND),
		"sync/atomic.AndUint64": atomicBit(token.AND),
		"sync/atomic.AndInt64":  atomicBit(token.AND),
		"sync/atomic.AndUintptr": atomicBit(token.AND),
		"(*sync/atomic.Value).Load":         atomicValueLoad,
		"(*sync/atomic.Value).Store":        atomicValueStore,
		"(*sync/atomic.Pointer).Load":       atomicPtrLoad,
		"(*sync/atomic.Pointer).Store":      atomicPtrStore,
		"(*sync/atomic.Pointer).CompareAndSwap": atomicPtrCAS,

		// --- internal/bytealg
		"internal/bytealg.IndexByte":       bytealgIndexByte,
		"internal/bytealg.IndexByteString": bytealgIndexByte,
		"internal/bytealg.LastIndexByte":   bytealgLastIndexByte,
		"internal/bytealg.LastIndexByteString": bytealgLastIndexByte,
		"internal/bytealg.Count":           bytealgCount,
		"internal/bytealg.CountString":     bytealgCount,
		"internal/bytealg.Equal":           bytealgEqual,
		"internal/bytealg.Compare":         bytealgCompare,
		"internal/bytealg.CompareString":   bytealgCompare,
		"internal/bytealg.Index":           bytealgIndex,
		"internal/bytealg.IndexString":     bytealgIndex,
		"internal/bytealg.MakeNoZero":      func(fr *frame, args []value) value { return makeBytes(int(fr.i.concInt(args[0]))) },
		"internal/stringslite.Index":       bytealgIndex,
		"strings.Index":                    bytealgIndex,
		"bytes.Index":                      bytealgIndex,
		"strings.IndexByte":                bytealgIndexByte,
		"bytes.IndexByte":                  bytealgIndexByte,
		"bytes.Equal":                      bytealgEqual,
		"bytes.Compare":                    bytealgCompare,
		"strings.Compare":                  bytealgCompare,
		"internal/bytealg.IndexRabinKarp":  nil,

		// --- misc runtime-ish
		"runtime.KeepAlive":          extNop,
		"runtime.GOROOT":             func(fr *frame, args []value) value { return runtime.GOROOT() },
		"runtime.Version":            func(fr *frame, args []value) value { return runtime.Version() },
		"runtime.Caller":             func(fr *frame, args []value) value { return tuple{uintptr(0), "", 0, false} },
		"runtime.Callers":            func(fr *frame, args []value) value { return 0 },
		"runtime.SetFinalizer":       extNop,
		"runtime.GOMAXPROCS":         func(fr *frame, args []value) value { return 1 },
		"runtime.NumCPU":             func(fr *frame, args []value) value { return 1 },
		"runtime.Gosched":            extNop,
		"runtime.GC":                 extNop,
		"internal/godebug.(*Setting).Value":          func(fr *frame, args []value) value { return "" },
		"(*internal/godebug.Setting).Value":          func(fr *frame, args []value) value { return "" },
		"(*internal/godebug.Setting).IncNonDefault":  extNop,
		"(*internal/godebug.Setting).Name":           func(fr *frame, args []value) value { return "" },
		"internal/godebug.New":                       func(fr *frame, args []value) value { return (*value)(nil) },
		"internal/race.Acquire":      extNop,
		"internal/race.Release":      extNop,
		"internal/race.ReleaseMerge": extNop,
		"internal/race.Disable":      extNop,
		"internal/race.Enable":       extNop,
		"internal/race.ReadRange":    extNop,
		"internal/race.WriteRange":   extNop,
		"internal/race.Read":         extNop,
		"internal/race.Write":        extNop,
		"math/bits.Len64":            nil,
		"os.Getenv":                  func(fr *frame, args []value) value { return fr.i.getenv(args[0]) },
		"errors.Is":                  errorsIs,
		"os.LookupEnv":               func(fr *frame, args []value) value { v := fr.i.getenv(args[0]); return tuple{v, strLen(v) > 0} },
		"syscall.Getenv":             func(fr *frame, args []value) value { v := fr.i.getenv(args[0]); return tuple{v, strLen(v) > 0} },
		"(*os.File).Write": func(fr *frame, args []value) value {
			data := args[1].([]value)
			if _, n := fr.i.openFile(args[0]); n != nil && len(data) > 0 {
				fr.i.ex.fs.crashCheck()
				n.data = append(n.data, data...)
				fr.i.ex.fs.mut("append")
			}
			return tuple{len(data), iface{}}
		},
		"(*os.File).WriteString": func(fr *frame, args []value) value {
			if _, n := fr.i.openFile(args[0]); n != nil && strLen(args[1]) > 0 {
				fr.i.ex.fs.crashCheck()
				n.data = append(n.data, strBytes(args[1])...)
				fr.i.ex.fs.mut("append")
			}
			return tuple{strLen(args[1]), iface{}}
		},
		"(*os.File).Close":       func(fr *frame, args []value) value { return iface{} },
		"(*os.File).Sync":        func(fr *frame, args []value) value { return iface{} },
		"(*log.Logger).Output":   func(fr *frame, args []value) value { return iface{} },
		"log.Printf":             extNop,
		"log.Println":            extNop,
		"log.Print":              extNop,
		"time.Now":                   func(fr *frame, args []value) value { unmodelled("time.Now"); return nil },
		"hash/maphash.MakeSeed":      func(fr *frame, args []value) value { return structure{uint64(0x9E3779B97F4A7C15)} },
		"hash/maphash.String":        func(fr *frame, args []value) value { return fnv64(fr, args[1]) },
		"hash/maphash.Bytes":         func(fr *frame, args []value) value { return fnv64(fr, args[1]) },
		"hash/maphash.Comparable": func(fr *frame, args []value) value {
			switch v := args[1].(type) {
			case *value:
				return uint64(uintptr(unsafe.Pointer(v)))
			case string:
				return fnv64(fr, v)
			}
			if k, ok := kindOfValue(args[1]); ok && !isSym(args[1]) {
				_ = k
				return uint64(asInt64(args[1])) * 0x9E3779B97F4A7C15
			}
			unmodelled("maphash.Comparable(%T)", args[1])
			return nil
		},
		"unique.Make":                nil,
		"abi.NoEscape":               func(fr *frame, args []value) value { return args[0] },
		"internal/abi.NoEscape":      func(fr *frame, args []value) value { return args[0] },
		"internal/abi.Escape":        func(fr *frame, args []value) value { return args[0] },
		"strings.noescape":           nil,
		"(*strings.Builder).copyCheck": extNop,
		"strings.Clone":              func(fr *frame, args []value) value { return args[0] },
		"internal/stringslite.Clone": func(fr *frame, args []value) value { return args[0] },
		"internal/strconv.float32bits": ext۰math۰Float32bits,
		"internal/strconv.float64bits": ext۰math۰Float64bits,
		"sort.Slice":       extSortSlice,
		"sort.SliceStable": extSortSlice,
		"reflect.TypeFor": func(fr *frame, args []value) value {
			return makeReflectType(rtype{fr.fn.TypeArgs()[0]})
		},
	} {
		if v != nil {
			externals[k] = v
		}
	}
	// the stock externals that must not shadow real (interpretable) code
	for _, k := range []string{"fmt.Sprint", "strings.Count", "strings.EqualFold", "strings.Replace",
		"strings.ToLower", "strconv.Atoi", "strconv.Itoa", "strconv.FormatFloat", "sort.Float64s", "sort.Ints",
		"sort.Strings", "unicode/utf8.DecodeRuneInString", "os.Exit", "time.Sleep", "math.Min", "math.Abs"} {
		delete(externals, k)
	}
	externals["os.Exit"] = func(fr *frame, args []value) value { panic(exitPanic(asInt64(args[0]))) }
}

func extNop(fr *frame, args []value) value { return nil }

func (i *interpreter) getenv(k value) value {
	name, ok := k.(string)
	if !ok {
		unmodelled("getenv of symbolic name")
	}
	if i.env != nil {
		if v, ok := i.env[name]; ok {
			return v
		}
	}
	if strings.HasPrefix(name, "GOSX_") {
		return os.Getenv(name) // harness parameters (tier) are visible to harness code
	}
	return ""
}

func makeBytes(n int) []value {
	b := make([]value, n)
	for k := range b {
		b[k] = uint8(0)
	}
	return b
}

func containsSymDeep(v value) bool {
	switch v := v.(type) {
	case sym, symstr:
		return true
	case []value:
		for _, e := range v {
			if containsSymDeep(e) {
				return true
			}
		}
	case structure:
		for _, e := range v {
			if containsSymDeep(e) {
				return true
			}
		}
	case array:
		for _, e := range v {
			if containsSymDeep(e) {
				return true
			}
		}
	case iface:
		return containsSymDeep(v.v)
	case *value:
		if v != nil {
			return containsSymDeep(*v)
		}
	}
	return false
}

// ---------------------------------------------------------------------------
// symx

func argString(v value) string {
	s, ok := v.(string)
	if !ok {
		panic(engineBug("symx: name/message argument must be a concrete string"))
	}
	return s
}

func symxScalar(k types.BasicKind, kind string) externalFn {
	return func(fr *frame, args []value) value {
		ex := fr.i.ex
		name := argString(args[0])
		w := kindWidth(k)
		v := ex.freshVar(name, w)
		ex.inputs = append(ex.inputs, InputRec{Name: name, Kind: kind, Vars: []string{v.Name}})
		return sym{v, k}
	}
}

func symxBytes(fr *frame, args []value) value {
	ex := fr.i.ex
	name := argString(args[0])
	n := int(asInt64(args[1]))
	out := make([]value, n)
	rec := InputRec{Name: name, Kind: "bytes"}
	for k := range out {
		v := ex.freshVar(fmt.Sprintf("%s[%d]", name, k), 8)
		out[k] = sym{v, types.Uint8}
		rec.Vars = append(rec.Vars, v.Name)
	}
	ex.inputs = append(ex.inputs, rec)
	return out
}

func symxString(fr *frame, args []value) value {
	ex := fr.i.ex
	name := argString(args[0])
	n := int(asInt64(args[1]))
	if n == 0 {
		ex.inputs = append(ex.inputs, InputRec{Name: name, Kind: "string"})
		return ""
	}
	out := make([]value, n)
	rec := InputRec{Name: name, Kind: "string"}
	for k := range out {
		v := ex.freshVar(fmt.Sprintf("%s[%d]", name, k), 8)
		out[k] = sym{v, types.Uint8}
		rec.Vars = append(rec.Vars, v.Name)
	}
	ex.inputs = append(ex.inputs, rec)
	return symstr{out}
}

func symxChoose(fr *frame, args []value) value {
	return fr.i.ex.Choose(int(asInt64(args[0])), "choose")
}

func symxAssume(fr *frame, args []value) value {
	ex := fr.i.ex
	switch c := args[0].(type) {
	case bool:
		if !c {
			panic(pathEnd{"assume-false", ""})
		}
	case sym:
		if !ex.feasible(c.t) {
			panic(pathEnd{"assume-false", ""})
		}
		ex.assume(c.t)
	}
	return nil
}

func symxAssert(fr *frame, args []value) value {
	ex := fr.i.ex
	msg := argString(args[1])
	switch c := args[0].(type) {
	case bool:
		ex.DecidingQ++
		if !c {
			ex.fail("assertion failed: " + msg)
		}
	case sym:
		r, m := ex.check(ex.ctx.Not(c.t), true)
		switch r {
		case smt.Sat:
			ex.recordViolation("assertion failed: "+msg, m)
			if !ex.feasible(c.t) {
				panic(pathEnd{"assume-false", "assertion fails on the whole path"})
			}
			ex.assume(c.t)
		case smt.Unsat:
			ex.assume(c.t) // now a known fact: helps later queries
		default:
			panic(pathEnd{"unknown", "assertion query returned unknown: " + msg})
		}
	}
	return nil
}

func symxFail(fr *frame, args []value) value {
	fr.i.ex.fail("failure: " + argString(args[0]))
	return nil
}

func symxReach(fr *frame, args []value) value {
	fr.i.ex.reached[argString(args[0])] = true
	return nil
}

func symxNote(fr *frame, args []value) value {
	fr.i.ex.notes = append(fr.i.ex.notes, argString(args[0]))
	return nil
}

func symxStub(fr *frame, args []value) value {
	name := argString(args[0])
	it := args[1].(iface)
	fr.i.ex.stubs[name] = it.v
	return nil
}

func symxUnstub(fr *frame, args []value) value {
	delete(fr.i.ex.stubs, argString(args[0]))
	return nil
}

func symxObserve(fr *frame, args []value) value {
	tag := argString(args[0])
	var vals []value
	for _, a := range args[1].([]value) {
		vals = append(vals, a)
	}
	fr.i.ex.observed = append(fr.i.ex.observed, observation{tag, vals})
	return nil
}

// symxIte(c bool, a, b int) int without forking.
func symxIte(fr *frame, args []value) value {
	ex := fr.i.ex
	switch c := args[0].(type) {
	case bool:
		if c {
			return args[1]
		}
		return args[2]
	case sym:
		k, _ := kindOfValue(args[1])
		return mk(ex.ctx.Ite(c.t, ex.term(args[1]), ex.term(args[2])), k)
	}
	panic("symx.Ite")
}

// Symbolic literals: asthelper.IntLit & co. with a symbolic argument produce
// a BasicLit whose Value is "\x00SYM<n>" indexing ex.symLits.

const symLitPrefix = "\x00SYM"

func (ex *Exec) newSymLit(v value) string {
	// the same term yields the same marker text, so that two generated trees
	// can be compared textually
	var key strings.Builder
	switch v := v.(type) {
	case sym:
		fmt.Fprintf(&key, "i%d.%d", v.k, v.t.ID)
	case symstr:
		key.WriteString("s")
		for _, b := range v.b {
			if s, ok := b.(sym); ok {
				fmt.Fprintf(&key, ".%d", s.t.ID)
			} else {
				fmt.Fprintf(&key, ".c%d", b.(uint8))
			}
		}
	}
	if ex.symLitIdx == nil {
		ex.symLitIdx = map[string]int{}
	}
	if n, ok := ex.symLitIdx[key.String()]; ok && key.Len() > 0 {
		return fmt.Sprintf("%s%d", symLitPrefix, n)
	}
	ex.symLits = append(ex.symLits, v)
	ex.symLitIdx[key.String()] = len(ex.symLits) - 1
	return fmt.Sprintf("%s%d", symLitPrefix, len(ex.symLits)-1)
}

func (ex *Exec) symLit(s value) (value, bool) {
	str, ok := s.(string)
	if !ok || !strings.HasPrefix(str, symLitPrefix) {
		return nil, false
	}
	var n int
	fmt.Sscanf(str[len(symLitPrefix):], "%d", &n)
	return ex.symLits[n], true
}

// symxIntOfLit(text string) (uint64, bool): the value of an integer literal
// text; the engine resolves symbolic literal markers.
func symxIntOfLit(fr *frame, args []value) value {
	if v, ok := fr.i.ex.symLit(args[0]); ok {
		k, isScalar := kindOfValue(v)
		if !isScalar {
			return tuple{uint64(0), false, false} // a string literal marker
		}
		switch v := v.(type) {
		case sym:
			return tuple{mk(fr.i.ex.ctx.Resize(v.t, 64, kindSigned(v.k)), types.Uint64), kindSigned(k), true}
		default:
			return tuple{uint64(asInt64(v)), kindSigned(k), true}
		}
	}
	return tuple{uint64(0), false, false}
}

// symxBytesOfLit(text string) ([]byte, bool)
func symxBytesOfLit(fr *frame, args []value) value {
	if v, ok := fr.i.ex.symLit(args[0]); ok && isStr(v) {
		return tuple{append([]value(nil), strBytes(v)...), true}
	}
	return tuple{[]value(nil), false}
}

// symxDigest(data []byte) [32]byte: sha256 as an uninterpreted function on
// symbolic input, the real function on concrete input.
type ufApp struct {
	in  []value
	out []*smt.Term

	concrete bool // computed by the real function
}

func symxDigest(fr *frame, args []value) value {
	return fr.i.ex.sha256(args[0].([]value))
}

// intrinsics for crypto/internal/fips140/sha256.Digest: the written bytes
// are accumulated in a side table keyed by the Digest's address.
func shaReset(fr *frame, args []value) value {
	ex := fr.i.ex
	if ex.shaState == nil {
		ex.shaState = map[*value][]value{}
	}
	ex.shaState[args[0].(*value)] = nil
	return nil
}

func shaWrite(fr *frame, args []value) value {
	ex := fr.i.ex
	if ex.shaState == nil {
		ex.shaState = map[*value][]value{}
	}
	p := args[0].(*value)
	data := args[1].([]value)
	ex.shaState[p] = append(ex.shaState[p], data...)
	return tuple{len(data), iface{}}
}

func shaSum(fr *frame, args []value) value {
	ex := fr.i.ex
	p := args[0].(*value)
	d := ex.sha256(ex.shaState[p])
	// appends in place when capacity allows, like the real Sum
	return append(args[1].([]value), []value(d)...)
}

func (ex *Exec) sha256(in []value) array {
	c := ex.ctx
	app := ufApp{in: append([]value(nil), in...)}
	out := make(array, 32)
	concrete := !containsSymDeep(in)
	if concrete {
		b := make([]byte, len(in))
		for k, e := range in {
			b[k] = e.(uint8)
		}
		sum := sha256.Sum256(b)
		for k := range out {
			out[k] = sum[k]
			app.out = append(app.out, c.Const(8, uint64(sum[k])))
		}
		app.concrete = true
	} else {
		for k := range out {
			v := ex.freshVar("sha256", 8)
			app.out = append(app.out, v)
			out[k] = sym{v, types.Uint8}
		}
	}
	// functional consistency and collision freedom against earlier applications
	// (two concrete applications need no axiom: the real function was computed)
	for _, prev := range ex.ufApps {
		if prev.concrete && concrete {
			continue
		}
		var inEq *smt.Term
		if len(prev.in) != len(app.in) {
			inEq = c.False
		} else {
			inEq = c.True
			for k := range app.in {
				inEq = c.And(inEq, c.Eq(ex.term(prev.in[k]), ex.term(app.in[k])))
			}
		}
		if n := ex.digestPrefix; n > 0 && n < len(app.out) {
			// stronger model: no two different inputs share the first n digest
			// bytes. inEq <=> preEq, and equal inputs give equal remaining bytes;
			// together these imply inEq <=> outEq without spelling out 32 bytes
			// for the (many) pairs whose inputs differ syntactically.
			preEq := c.True
			for k := 0; k < n; k++ {
				preEq = c.And(preEq, c.Eq(prev.out[k], app.out[k]))
			}
			ex.assume(c.Eq(inEq, preEq))
			if !inEq.IsFalse() {
				restEq := c.True
				for k := n; k < len(app.out); k++ {
					restEq = c.And(restEq, c.Eq(prev.out[k], app.out[k]))
				}
				ex.assume(c.Implies(inEq, restEq))
			}
			continue
		}
		outEq := c.True
		for k := range app.out {
			outEq = c.And(outEq, c.Eq(prev.out[k], app.out[k]))
		}
		ex.assume(c.Eq(inEq, outEq))
	}
	if concrete {
		if len(ex.ufApps) < 256 {
			ex.ufApps = append(ex.ufApps, app) // so that symbolic applications are related to it
		}
		return out
	}
	if ex.digestMod > 0 {
		ex.assume(c.Eq(c.Bin(smt.OBvUrem, app.out[ex.digestIdx], c.Const(8, ex.digestMod)), c.Const(8, ex.digestRem)))
	}
	ex.ufApps = append(ex.ufApps, app)
	ex.noteOnce("sha256 modelled as an uninterpreted, collision-free function on symbolic input")
	return out
}

func (ex *Exec) noteOnce(s string) {
	for _, n := range ex.notes {
		if n == s {
			return
		}
	}
	ex.notes = append(ex.notes, s)
}

// ---------------------------------------------------------------------------
// math/rand

func (ex *Exec) recordDraw(method string, global bool, arg *smt.Term, terms ...*smt.Term) {
	ex.draws = append(ex.draws, DrawRec{Method: method, Global: global, ArgTerm: arg, Terms: terms})
}

func drawPrefix(global bool) string {
	if global {
		return "gdraw:"
	}
	return "draw:"
}

// consultPolicy asks the harness DrawPolicy about a draw. It returns a
// positive bound to assume (result < bound), or 0. A negative answer ends the
// path: the harness's draw budget is exhausted (stated in the evidence).
func (ex *Exec) consultPolicy(fr *frame, method string, global bool, n int) int64 {
	if ex.drawPolicy == nil {
		return 0
	}
	if global {
		method = "global." + method
	}
	pol := ex.drawPolicy
	ex.drawPolicy = nil // the policy itself must not draw
	b := asInt64(call(fr.i, fr, token.NoPos, pol, []value{method, n}))
	ex.drawPolicy = pol
	if b < 0 {
		ex.noteOnce("draw budget in force: paths with more " + method + " draws than the harness allows are cut (harness DrawPolicy)")
		panic(pathEnd{"assume-false", "draw budget"})
	}
	if b > 0 {
		ex.noteOnce(fmt.Sprintf("draw bound in force: %s(n) < %d for some call sites (harness DrawPolicy)", method, b))
	}
	return b
}

// reuseDraw returns the terms of the next draw of the first run when the
// harness rewound the seeded sequence (symx.RewindDraws) and the draw matches
// (same method, argument and size); otherwise nil and the sequence is
// considered diverged from here on.
func (ex *Exec) reuseDraw(method string, global bool, arg *smt.Term, n int) []*smt.Term {
	if global || ex.rewound < 0 {
		return nil
	}
	for ex.rewound < ex.rewoundEnd && ex.draws[ex.rewound].Global {
		ex.rewound++
	}
	if ex.rewound >= ex.rewoundEnd {
		ex.rewound = -1
		return nil
	}
	d := ex.draws[ex.rewound]
	if d.Method != method || d.ArgTerm != arg || len(d.Terms) != n {
		ex.rewound = -1
		ex.noteOnce("second run diverged from the first run's draw sequence")
		return nil
	}
	ex.rewound++
	return d.Terms
}

// randDraw: a fresh value of the given kind with `bits` significant bits.
func randDraw(method string, k types.BasicKind, bits uint8, global bool) externalFn {
	return func(fr *frame, args []value) value {
		ex := fr.i.ex
		w := kindWidth(k)
		if ts := ex.reuseDraw(method, global, nil, 1); ts != nil {
			return mk(ts[0], k)
		}
		b := ex.consultPolicy(fr, method, global, 0)
		if b == 1 {
			// the only value below the bound: a concrete draw
			ex.recordDraw(method, global, nil, ex.ctx.Const(w, 0))
			return concreteOf(k, 0)
		}
		v := ex.freshVar(drawPrefix(global)+method, w)
		if bits < w {
			ex.assume(ex.ctx.Cmp(smt.OUlt, v, ex.ctx.Const(w, uint64(1)<<bits)))
		}
		if b > 0 {
			ex.assume(ex.ctx.Cmp(smt.OUlt, v, ex.ctx.Const(w, uint64(b))))
		}
		ex.recordDraw(method, global, nil, v)
		return sym{v, k}
	}
}

// randDrawN: a fresh value in [0,n); panics like math/rand for n <= 0.
func randDrawN(method string, k types.BasicKind, global bool) externalFn {
	return func(fr *frame, args []value) value {
		ex := fr.i.ex
		c := ex.ctx
		n := args[len(args)-1]
		w := kindWidth(k)
		nt := ex.term(n)
		if ex.branch(c.Cmp(smt.OSle, nt, c.Const(w, 0))) {
			panic(targetPanic{iface{t: types.Typ[types.String], v: "invalid argument to " + method}})
		}
		if ts := ex.reuseDraw(method, global, nt, 1); ts != nil {
			return mk(ts[0], k)
		}
		if ex.drawPolicy != nil {
			nn := -1
			if !isSym(n) {
				nn = int(asInt64(n))
			}
			if bb := ex.consultPolicy(fr, method, global, nn); bb == 1 {
				ex.recordDraw(method, global, nt, c.Const(w, 0))
				return concreteOf(k, 0)
			} else if bb > 0 {
				ex.pendingBound = bb
			}
		}
		var v *smt.Term
		if !isSym(n) && asInt64(n) > 0 && asInt64(n) < 1<<31 {
			// concrete bound: a variable just wide enough, zero-extended
			nn := uint64(asInt64(n))
			nw := uint8(bits.Len64(nn - 1))
			if nw == 0 {
				nw = 1
			}
			nv := ex.freshVar(drawPrefix(global)+method, nw)
			if nn != uint64(1)<<nw {
				ex.assume(c.Cmp(smt.OUlt, nv, c.Const(nw, nn)))
			}
			v = c.Zext(nv, w)
		} else {
			v = ex.freshVar(drawPrefix(global)+method, w)
			ex.assume(c.Cmp(smt.OUlt, v, nt))
		}
		if ex.pendingBound > 0 {
			ex.assume(c.Cmp(smt.OUlt, v, c.Const(w, uint64(ex.pendingBound))))
			ex.pendingBound = 0
		}
		ex.recordDraw(method, global, nt, v)
		return sym{v, k}
	}
}

// randFloat32 explores the two extremes of [0,1): enough for code that only
// compares the draw with a probability threshold strictly inside (0,1).
func randFloat32(fr *frame, args []value) value {
	ex := fr.i.ex
	if ts := ex.reuseDraw("Float32", false, nil, 1); ts != nil {
		if ts[0].Val == 0 {
			return float32(0)
		}
		return float32(1<<24-1) / (1 << 24)
	}
	if b := ex.consultPolicy(fr, "Float32", false, 0); b > 0 {
		ex.recordDraw("Float32", false, nil, ex.ctx.Const(32, 0))
		return float32(0) // the harness restricts this draw to its lower extreme
	}
	v := ex.freshVar("draw:Float32", 32)
	ex.assume(ex.ctx.Cmp(smt.OUlt, v, ex.ctx.Const(32, 2)))
	k := ex.concretize(v)
	raw := ex.ctx.Const(32, 0)
	res := float32(0)
	if k == 1 {
		raw = ex.ctx.Const(32, 1<<24-1)
		res = float32(1<<24-1) / (1 << 24)
	}
	ex.recordDraw("Float32", false, nil, raw)
	ex.noteOnce("(*rand.Rand).Float32 explored at its two extremes 0 and 1-2^-24 only")
	return res
}

// randPerm returns n fresh pairwise distinct values in [0,n).
func randPerm(fr *frame, args []value) value {
	ex := fr.i.ex
	c := ex.ctx
	n := int(fr.i.concInt(args[1]))
	out := make([]value, n)
	if ts := ex.reuseDraw("Perm", false, c.Const(64, uint64(n)), n); ts != nil {
		for k := range out {
			out[k] = mk(ts[k], types.Int)
		}
		return out
	}
	if b := ex.consultPolicy(fr, "Perm", false, n); b > 0 {
		// the harness restricts this permutation to the identity
		var terms []*smt.Term
		for k := 0; k < n; k++ {
			out[k] = k
			terms = append(terms, c.Const(64, uint64(k)))
		}
		ex.recordDraw("Perm", false, c.Const(64, uint64(n)), terms...)
		ex.noteOnce("a Perm draw is restricted to the identity permutation (harness DrawPolicy)")
		return out
	}
	var terms []*smt.Term
	for k := 0; k < n; k++ {
		v := ex.freshVar("draw:Perm", 64)
		ex.assume(c.Cmp(smt.OUlt, v, c.Const(64, uint64(n))))
		for _, p := range terms {
			ex.assume(c.Not(c.Eq(v, p)))
		}
		terms = append(terms, v)
		out[k] = mk(v, types.Int)
	}
	ex.recordDraw("Perm", false, c.Const(64, uint64(n)), terms...)
	return out
}

// symLitExt intercepts asthelper.IntLit/UintLit/StringLit when the argument is
// symbolic: the literal text becomes an opaque marker resolved by symx.IntOfLit
// / symx.BytesOfLit. Concrete arguments take the real function.
func symLitExt(isString bool) externalFn {
	return func(fr *frame, args []value) value {
		if !containsSymDeep(args[0]) {
			return notHandled{}
		}
		kind := int(token.INT)
		if isString {
			kind = int(token.STRING)
		}
		// build the *ast.BasicLit by field name (the struct layout differs between Go versions)
		pt := fr.fn.Signature.Results().At(0).Type().Underlying().(*types.Pointer)
		st := pt.Elem().Underlying().(*types.Struct)
		lit := zero(pt.Elem()).(structure)
		for k := 0; k < st.NumFields(); k++ {
			switch st.Field(k).Name() {
			case "Kind":
				lit[k] = kind
			case "Value":
				lit[k] = fr.i.ex.newSymLit(args[0])
			}
		}
		var cell value = lit
		return &cell
	}
}

func randRead(global bool) externalFn {
	return func(fr *frame, args []value) value {
		ex := fr.i.ex
		p := args[len(args)-1].([]value)
		if ts := ex.reuseDraw("Read", global, ex.ctx.Const(64, uint64(len(p))), len(p)); ts != nil {
			for k := range p {
				p[k] = mk(ts[k], types.Uint8)
			}
			return tuple{len(p), iface{}}
		}
		if b := ex.consultPolicy(fr, "Read", global, len(p)); b > 0 {
			// the harness restricts this draw to zero bytes
			var terms []*smt.Term
			for k := range p {
				p[k] = uint8(0)
				terms = append(terms, ex.ctx.Const(8, 0))
			}
			ex.recordDraw("Read", global, ex.ctx.Const(64, uint64(len(p))), terms...)
			return tuple{len(p), iface{}}
		}
		var terms []*smt.Term
		for k := range p {
			v := ex.freshVar(drawPrefix(global)+"Read", 8)
			p[k] = sym{v, types.Uint8}
			terms = append(terms, v)
		}
		ex.recordDraw("Read", global, ex.ctx.Const(64, uint64(len(p))), terms...)
		return tuple{len(p), iface{}}
	}
}

// ---------------------------------------------------------------------------
// sync

func syncOnceDo(fr *frame, args []value) value {
	o := args[0].(*value)
	st := (*o).(structure)
	// sync.Once{_ noCopy; done atomic.Uint32; m Mutex}: find the "done" field by position 1
	done := st[1].(structure) // atomic.Uint32{_ noCopy; v uint32}
	if done[1].(uint32) == 0 {
		defer func() { done[1] = uint32(1) }()
		call(fr.i, fr, token.NoPos, args[1], nil)
	}
	return nil
}

func syncPoolGet(fr *frame, args []value) value {
	p := args[0].(*value)
	st := (*p).(structure)
	// New is the last field
	newFn := st[len(st)-1]
	switch f := newFn.(type) {
	case *ssa.Function:
		if f == nil {
			return iface{}
		}
	}
	return call(fr.i, fr, token.NoPos, newFn, nil)
}

// ---------------------------------------------------------------------------
// sync/atomic

func atomicLoad(fr *frame, args []value) value  { return *args[0].(*value) }
func atomicStore(fr *frame, args []value) value { *args[0].(*value) = args[1]; return nil }
func atomicAdd(fr *frame, args []value) value {
	p := args[0].(*value)
	*p = binop(fr.i, token.ADD, nil, *p, args[1])
	return *p
}
func atomicBit(op token.Token) externalFn {
	return func(fr *frame, args []value) value {
		p := args[0].(*value)
		old := *p
		*p = binop(fr.i, op, nil, old, args[1])
		return old
	}
}
func atomicCAS(fr *frame, args []value) value {
	p := args[0].(*value)
	if equalsAny(fr.i, *p, args[1]) {
		*p = args[2]
		return true
	}
	return false
}
func atomicSwap(fr *frame, args []value) value {
	p := args[0].(*value)
	old := *p
	*p = args[1]
	return old
}

func equalsAny(i *interpreter, x, y value) bool {
	switch x := x.(type) {
	case unsafe.Pointer:
		return x == y.(unsafe.Pointer)
	case *value:
		yy, ok := y.(*value)
		return ok && x == yy
	}
	return equals(i, nil, x, y)
}

// atomic.Value{v any}
func atomicValueLoad(fr *frame, args []value) value {
	st := (*args[0].(*value)).(structure)
	return st[0]
}
func atomicValueStore(fr *frame, args []value) value {
	st := (*args[0].(*value)).(structure)
	st[0] = args[1]
	return nil
}

// atomic.Pointer[T]{_ [0]*T; _ noCopy; v unsafe.Pointer}: we store the *value directly in field 2.
func atomicPtrLoad(fr *frame, args []value) value {
	st := (*args[0].(*value)).(structure)
	if p, ok := st[2].(*value); ok {
		return p
	}
	return (*value)(nil)
}
func atomicPtrStore(fr *frame, args []value) value {
	st := (*args[0].(*value)).(structure)
	st[2] = args[1]
	return nil
}
func atomicPtrCAS(fr *frame, args []value) value {
	st := (*args[0].(*value)).(structure)
	cur, _ := st[2].(*value)
	if cur == args[1].(*value) {
		st[2] = args[2]
		return true
	}
	return false
}

// ---------------------------------------------------------------------------
// bytealg (work on []value or strings, concrete or symbolic)

func seqOf(v value) []value {
	switch v := v.(type) {
	case []value:
		return v
	case string, symstr:
		return strBytes(v)
	}
	panic(fmt.Sprintf("seqOf: %T", v))
}

func bytealgIndexByte(fr *frame, args []value) value {
	ex := fr.i.ex
	s := seqOf(args[0])
	c := ex.term(args[1])
	for k, e := range s {
		if ex.branch(ex.ctx.Eq(ex.term(e), c)) {
			return k
		}
	}
	return -1
}

func bytealgLastIndexByte(fr *frame, args []value) value {
	ex := fr.i.ex
	s := seqOf(args[0])
	c := ex.term(args[1])
	for k := len(s) - 1; k >= 0; k-- {
		if ex.branch(ex.ctx.Eq(ex.term(s[k]), c)) {
			return k
		}
	}
	return -1
}

func bytealgCount(fr *frame, args []value) value {
	ex := fr.i.ex
	s := seqOf(args[0])
	c := ex.term(args[1])
	cx := ex.ctx
	n := cx.Const(64, 0)
	for _, e := range s {
		n = cx.Bin(smt.OBvAdd, n, cx.Ite(cx.Eq(ex.term(e), c), cx.Const(64, 1), cx.Const(64, 0)))
	}
	return mk(n, types.Int)
}

func (ex *Exec) seqEqTerm(a, b []value) *smt.Term {
	if len(a) != len(b) {
		return ex.ctx.False
	}
	r := ex.ctx.True
	for k := range a {
		r = ex.ctx.And(r, ex.ctx.Eq(ex.term(a[k]), ex.term(b[k])))
		if r.IsFalse() {
			break
		}
	}
	return r
}

func bytealgEqual(fr *frame, args []value) value {
	ex := fr.i.ex
	return mk(ex.seqEqTerm(seqOf(args[0]), seqOf(args[1])), types.Bool)
}

func bytealgCompare(fr *frame, args []value) value {
	ex := fr.i.ex
	a, b := seqOf(args[0]), seqOf(args[1])
	for k := 0; k < len(a) && k < len(b); k++ {
		ta, tb := ex.term(a[k]), ex.term(b[k])
		if ex.branch(ex.ctx.Eq(ta, tb)) {
			continue
		}
		if ex.branch(ex.ctx.Cmp(smt.OUlt, ta, tb)) {
			return -1
		}
		return 1
	}
	switch {
	case len(a) < len(b):
		return -1
	case len(a) > len(b):
		return 1
	}
	return 0
}

func bytealgIndex(fr *frame, args []value) value {
	ex := fr.i.ex
	a, b := seqOf(args[0]), seqOf(args[1])
	n := len(b)
	if n == 0 {
		return 0
	}
	for k := 0; k+n <= len(a); k++ {
		if ex.branch(ex.seqEqTerm(a[k:k+n], b)) {
			return k
		}
	}
	return -1
}

func fnv64(fr *frame, v value) value {
	var h uint64 = 14695981039346656037
	for _, b := range seqOf(v) {
		c, ok := b.(uint8)
		if !ok {
			unmodelled("maphash of symbolic data")
		}
		h ^= uint64(c)
		h *= 1099511628211
	}
	return h
}

var pureExternals = map[string]bool{
	symxPath + ".Ite": true, symxPath + ".And": true, symxPath + ".Or": true, symxPath + ".Symbolic": true, symxPath + ".IsConcrete": true,
	"internal/bytealg.Equal": true, "bytes.Equal": true, "internal/bytealg.Count": true, "internal/bytealg.CountString": true,
	"(*sync.Mutex).Lock": true, "(*sync.Mutex).Unlock": true, "(*sync.RWMutex).RLock": true, "(*sync.RWMutex).RUnlock": true,
	"(*sync.RWMutex).Lock": true, "(*sync.RWMutex).Unlock": true,
	"runtime.KeepAlive": true, "internal/abi.NoEscape": true, "strings.Clone": true,
	"internal/bytealg.MakeNoZero": true,
}

// setUnexportedField(objRaw any, name string, valRaw any): assigns the named
// field of the struct objRaw points to (garble does this with reflect+unsafe).
func setUnexportedField(fr *frame, args []value) value {
	obj := args[0].(iface)
	name := argString(args[1])
	val := args[2].(iface)
	t := obj.t
	v := obj.v
	for {
		pt, ok := t.Underlying().(*types.Pointer)
		if !ok {
			break
		}
		p := v.(*value)
		if p == nil {
			panic(runtimeError("setUnexportedField on nil pointer"))
		}
		t = pt.Elem()
		st, ok := t.Underlying().(*types.Struct)
		if !ok {
			v = *p
			continue
		}
		fields := (*p).(structure)
		// direct field or a field of an embedded struct (one level, e.g. register / anInstruction)
		var set func(st *types.Struct, fields structure) bool
		set = func(st *types.Struct, fields structure) bool {
			for k := 0; k < st.NumFields(); k++ {
				f := st.Field(k)
				if f.Name() == name {
					if types.IsInterface(f.Type()) {
						fr.i.writeCell(&fields[k], val)
					} else {
						fr.i.writeCell(&fields[k], val.v)
					}
					return true
				}
			}
			for k := 0; k < st.NumFields(); k++ {
				f := st.Field(k)
				if f.Embedded() {
					if est, ok := f.Type().Underlying().(*types.Struct); ok {
						if set(est, fields[k].(structure)) {
							return true
						}
					}
				}
			}
			return false
		}
		if !set(st, fields) {
			panic(targetPanic{iface{t: types.Typ[types.String], v: "invalid field: " + name}})
		}
		return nil
	}
	panic(engineBug("setUnexportedField: not a pointer to struct"))
}

// errorsIs implements errors.Is for the comparable sentinel errors used with
// the file-system model (errors.init is not run, so the real one cannot be).
func errorsIs(fr *frame, args []value) value {
	err, target := args[0].(iface), args[1].(iface)
	for depth := 0; depth < 8 && err.t != nil; depth++ {
		if sameType(err.t, target.t) {
			if p, ok := err.v.(*value); ok {
				if q, ok := target.v.(*value); ok && p == q {
					return true
				}
			}
		}
		// Unwrap() error
		sel := fr.i.prog.MethodSets.MethodSet(err.t).Lookup(nil, "Unwrap")
		if sel == nil {
			return false
		}
		m := fr.i.prog.MethodValue(sel)
		if m == nil || m.Signature.Results().Len() != 1 {
			return false
		}
		next, ok := call(fr.i, fr, token.NoPos, m, []value{err.v}).(iface)
		if !ok {
			return false
		}
		err = next
	}
	return false
}

// extSortSlice is sort.Slice/SliceStable (the real ones go through reflectlite's
// swapper): a stable insertion sort that calls the interpreted less function; a
// symbolic comparison result forks like any branch.
func extSortSlice(fr *frame, args []value) value {
	var x []value
	switch a := args[0].(type) {
	case iface:
		x, _ = a.v.([]value)
	case []value:
		x = a
	}
	less := func(a, b int) bool {
		r := call(fr.i, fr, 0, args[1], []value{a, b})
		switch r := r.(type) {
		case bool:
			return r
		case sym:
			return fr.i.ex.branch(r.t)
		}
		unmodelled("sort.Slice: less returned an unexpected value")
		return false
	}
	for a := 1; a < len(x); a++ {
		for b := a; b > 0 && less(b, b-1); b-- {
			x[b], x[b-1] = x[b-1], x[b]
		}
	}
	return nil
}
