package interp

import (
	"fmt"
	"go/token"
	"go/types"
	"strings"
	"sync"

	"golang.org/x/tools/go/ssa"

	"gosx/smt"
)

// ptr converts an address value to *value, concretizing a symbolic index.
func (fr *frame) ptr(v value) *value {
	switch v := v.(type) {
	case *value:
		return v
	case symPtr:
		fr.i.boundsCheck(v.idx, len(v.base))
		return &v.base[fr.i.concInt(v.idx)]
	}
	panic(fmt.Sprintf("ptr: %T", v))
}

// symMinMax implements the min/max builtins for concrete and symbolic operands.
func (i *interpreter) symMinMax(args []value, isMin bool) value {
	x := args[0]
	for _, y := range args[1:] {
		if isSym(x) || isSym(y) {
			k, _ := kindOfValue(x)
			c := i.ex.ctx
			var lt value
			if isMin {
				lt = i.symBinop(token.LSS, y, x)
			} else {
				lt = i.symBinop(token.GTR, y, x)
			}
			x = mk(c.Ite(i.ex.term(lt), i.ex.term(y), i.ex.term(x)), k)
			continue
		}
		if isStr(x) && (!isNative(x) || !isNative(y)) {
			var lt value
			if isMin {
				lt = i.symStrBinop(token.LSS, y, x)
			} else {
				lt = i.symStrBinop(token.GTR, y, x)
			}
			if i.ex.branch(i.ex.term(lt)) {
				x = y
			}
			continue
		}
		if isMin {
			x = valMin(x, y)
		} else {
			x = valMax(x, y)
		}
	}
	return x
}

func isNative(v value) bool {
	_, ok := v.(string)
	return ok
}

// symConv handles conversions that involve symbolic values. ok=false means
// the stock conversion applies.
func (i *interpreter) symConv(utDst, utSrc types.Type, x value) (value, bool) {
	switch x := x.(type) {
	case sym:
		db, ok := utDst.(*types.Basic)
		if !ok {
			unmodelled("conversion of symbolic %v to %s", x.k, utDst)
		}
		switch {
		case db.Info()&types.IsInteger != 0:
			return i.symConvInt(x, db.Kind()), true
		case db.Kind() == types.String:
			return mkStr(i.encodeRune(x)), true
		case db.Info()&types.IsFloat != 0:
			// floats are concrete in the engine: fork on the integer's value
			// (in practice a size or column that is determined by the path)
			return conv(i, utDst, utSrc, i.concValue(x)), true
		case db.Kind() == types.Bool:
			return x, true
		}
		unmodelled("conversion of symbolic %v to %s", x.k, utDst)
	case symstr:
		switch d := utDst.(type) {
		case *types.Basic:
			if d.Kind() == types.String {
				return x, true
			}
		case *types.Slice:
			switch d.Elem().Underlying().(*types.Basic).Kind() {
			case types.Byte:
				return append([]value(nil), x.b...), true
			case types.Rune:
				res := []value{}
				for pos := 0; pos < len(x.b); {
					r, n := i.decodeRune(x.b[pos:])
					res = append(res, r)
					pos += n
				}
				return res, true
			}
		}
		unmodelled("conversion of symbolic string to %s", utDst)
	case []value:
		if s, ok := utSrc.(*types.Slice); ok {
			if db, ok := utDst.(*types.Basic); ok && db.Kind() == types.String {
				if eb, ok := s.Elem().Underlying().(*types.Basic); ok {
					switch eb.Kind() {
					case types.Byte:
						return mkStr(x), true
					case types.Rune:
						var out []value
						for _, r := range x {
							out = append(out, i.encodeRune(r)...)
						}
						return mkStr(out), true
					}
				}
			}
		}
	}
	return nil, false
}

// mapOrderApplies reports whether a symbolic iteration order is to be drawn
// for a map range executed in fr's function.
func (i *interpreter) mapOrderApplies(fr *frame) bool {
	for f := fr; f != nil; f = f.caller {
		if f.fn.Pkg == nil {
			continue
		}
		p := f.fn.Pkg.Pkg.Path()
		if strings.HasPrefix(p, "mvdan.cc/garble") {
			return true
		}
		if p == "maps" || p == "slices" || p == "iter" {
			continue
		}
		return false
	}
	return false
}

// chooseOrderFor applies the harness's options (symx.MapOrderOpts): maps below
// the minimum size keep insertion order; with sticky orders a map object keeps
// the order drawn for it while its number of entries stays the same.
func (ex *Exec) chooseOrderFor(m *omap, live []int) []int {
	if ex.mapOrderMin > 0 && len(live) < ex.mapOrderMin {
		return live
	}
	if ex.mapOrderFull < 0 {
		// one perturbation per path, applied to every map: identity, reversal or rotation by one
		if ex.mapOrderGlobal == 0 {
			ex.mapOrderGlobal = 1 + ex.Choose(3, "maporder-global")
		}
		n := len(live)
		out := make([]int, n)
		for j := range live {
			switch ex.mapOrderGlobal {
			case 2:
				out[j] = live[n-1-j]
			case 3:
				out[j] = live[(j+1)%n]
			default:
				out[j] = live[j]
			}
		}
		return out
	}
	if !ex.mapOrderSticky {
		return ex.chooseOrder(live)
	}
	if prev, ok := ex.mapOrders[m]; ok && len(prev) == len(live) {
		same := map[int]bool{}
		for _, p := range live {
			same[p] = true
		}
		ok := true
		for _, p := range prev {
			ok = ok && same[p]
		}
		if ok {
			return prev
		}
	}
	o := ex.chooseOrder(live)
	if ex.mapOrders == nil {
		ex.mapOrders = map[*omap][]int{}
	}
	ex.mapOrders[m] = o
	return o
}

// chooseOrder draws a permutation of positions through forking choices.
// Up to 3 entries all orders are explored; above, identity, reversal and rotations.
func (ex *Exec) chooseOrder(live []int) []int {
	n := len(live)
	full := ex.mapOrderFull
	if full == 0 {
		full = 3
	}
	if n <= full {
		rest := append([]int(nil), live...)
		out := make([]int, 0, n)
		for len(rest) > 1 {
			k := ex.Choose(len(rest), "maporder")
			out = append(out, rest[k])
			rest = append(rest[:k], rest[k+1:]...)
		}
		return append(out, rest[0])
	}
	ex.notes = append(ex.notes, fmt.Sprintf("map of %d entries: only identity/reversal/rotations explored", n))
	k := ex.Choose(n+1, "maporder-rot")
	out := make([]int, n)
	if k == n {
		for j := range live {
			out[j] = live[n-1-j]
		}
		return out
	}
	for j := range live {
		out[j] = live[(j+k)%n]
	}
	return out
}

// Choose returns a concrete value in [0,n), forking over all of them.
func (ex *Exec) Choose(n int, name string) int {
	if n <= 1 {
		return 0
	}
	v := ex.freshVar("choose:"+name, 32)
	ex.assume(ex.ctx.Cmp(smt.OUlt, v, ex.ctx.Const(32, uint64(n))))
	r := int(ex.concretize(v))
	ex.inputs = append(ex.inputs, InputRec{Name: name, Kind: "choose", Vars: []string{v.Name}})
	return r
}

// mustDeref returns the element type of a pointer type (instantiated code
// only, so the underlying type is the core type).
func mustDeref(t types.Type) types.Type {
	if ptr, ok := t.Underlying().(*types.Pointer); ok {
		return ptr.Elem()
	}
	panic(fmt.Sprintf("%v is not a pointer", t))
}

// envIndex numbers the SSA values of a function so that a frame's
// environment is a slice.
type envIndex struct {
	slot map[ssa.Value]int32
	n    int
}

var envIndexCache sync.Map // *ssa.Function -> *envIndex

func envIndexOf(fn *ssa.Function) *envIndex {
	if v, ok := envIndexCache.Load(fn); ok {
		return v.(*envIndex)
	}
	e := &envIndex{slot: map[ssa.Value]int32{}}
	add := func(v ssa.Value) {
		if _, ok := e.slot[v]; !ok {
			e.slot[v] = int32(e.n)
			e.n++
		}
	}
	for _, p := range fn.Params {
		add(p)
	}
	for _, fv := range fn.FreeVars {
		add(fv)
	}
	for _, l := range fn.Locals {
		add(l)
	}
	for _, b := range fn.Blocks {
		for _, in := range b.Instrs {
			if v, ok := in.(ssa.Value); ok {
				add(v)
			}
		}
	}
	v, _ := envIndexCache.LoadOrStore(fn, e)
	return v.(*envIndex)
}

func (fr *frame) set(k ssa.Value, v value) {
	fr.vals[fr.idx.slot[k]] = v
}

func (fr *frame) lookup(k ssa.Value) (value, bool) {
	s, ok := fr.idx.slot[k]
	if !ok {
		return nil, false
	}
	v := fr.vals[s]
	return v, v != nil
}

func (fr *frame) mustLookup(k ssa.Value) value {
	return fr.vals[fr.idx.slot[k]]
}
