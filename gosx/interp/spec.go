package interp

// If-conversion by speculative execution: at an If with a symbolic condition
// whose two sides rejoin at the immediate post-dominator, both sides are
// executed with memory writes logged, the writes are rolled back, and the
// final memory / phi values are merged with ite(cond, then, else). Anything
// that cannot be merged (calls with effects, forks, panics, returns,
// non-scalar differences) aborts the speculation and the If forks normally.

import (
	"fmt"
	"go/types"
	"os"
	"strings"
	"sync"

	"golang.org/x/tools/go/ssa"
)

type specAbort struct{ why string }

type writeRec struct {
	p   *value
	old value
}

// specLog is one level of speculation.
type specLog struct {
	writes []writeRec
	seen   map[*value]bool
	steps  int
}

const specStepLimit = 20000

// writeCell performs *p = v, logging the old value while speculating.
func (i *interpreter) writeCell(p *value, v value) {
	if n := len(i.spec); n > 0 {
		l := i.spec[n-1]
		if !l.seen[p] {
			l.seen[p] = true
			l.writes = append(l.writes, writeRec{p, *p})
		}
	}
	*p = v
}

// specStore is store() with logged leaf writes.
func (i *interpreter) specStoreLeaf(p *value, v value) { i.writeCell(p, v) }

func (i *interpreter) speculating() bool { return len(i.spec) > 0 }

// specForbid aborts the current speculation (no-op otherwise).
func (i *interpreter) specForbid(why string) {
	if len(i.spec) > 0 {
		panic(specAbort{why})
	}
}

// ---------------------------------------------------------------------------
// post-dominators

type pdomInfo struct {
	ipdom []int // block index -> index of immediate post-dominator, -1 = exit/none
}

var pdomCache sync.Map // *ssa.Function -> *pdomInfo

// endsInPanic reports whether the block terminates in a panic. Such blocks
// are ignored when computing post-dominators, so that an error exit inside a
// switch does not prevent merging at the statement's natural join; a side that
// really reaches the panic aborts the speculation.
func endsInPanic(b *ssa.BasicBlock) bool {
	if len(b.Instrs) == 0 {
		return false
	}
	_, ok := b.Instrs[len(b.Instrs)-1].(*ssa.Panic)
	return ok
}

func pdomOf(fn *ssa.Function) *pdomInfo {
	if v, ok := pdomCache.Load(fn); ok {
		return v.(*pdomInfo)
	}
	n := len(fn.Blocks)
	exit := n
	// reverse post-order on the reverse CFG, starting from exit
	succs := func(b int) []int { // successors in the reversed graph = preds in CFG
		if b == exit {
			var out []int
			for _, blk := range fn.Blocks {
				if len(blk.Succs) == 0 && !endsInPanic(blk) {
					out = append(out, blk.Index)
				}
			}
			return out
		}
		var out []int
		for _, p := range fn.Blocks[b].Preds {
			out = append(out, p.Index)
		}
		return out
	}
	order := make([]int, 0, n+1)
	num := make([]int, n+1)
	for k := range num {
		num[k] = -1
	}
	visited := make([]bool, n+1)
	var dfs func(b int)
	dfs = func(b int) {
		visited[b] = true
		for _, s := range succs(b) {
			if !visited[s] {
				dfs(s)
			}
		}
		order = append(order, b)
	}
	dfs(exit)
	// order is post-order; reverse it
	for l, r := 0, len(order)-1; l < r; l, r = l+1, r-1 {
		order[l], order[r] = order[r], order[l]
	}
	for k, b := range order {
		num[b] = k
	}
	idom := make([]int, n+1)
	for k := range idom {
		idom[k] = -1
	}
	idom[exit] = exit
	intersect := func(a, b int) int {
		for a != b {
			for num[a] > num[b] {
				a = idom[a]
			}
			for num[b] > num[a] {
				b = idom[b]
			}
		}
		return a
	}
	preds := func(b int) []int { // predecessors in reversed graph = succs in CFG (+exit edge)
		if b == exit {
			return nil
		}
		var out []int
		for _, s := range fn.Blocks[b].Succs {
			out = append(out, s.Index)
		}
		if len(fn.Blocks[b].Succs) == 0 && !endsInPanic(fn.Blocks[b]) {
			out = append(out, exit)
		}
		return out
	}
	for changed := true; changed; {
		changed = false
		for _, b := range order[1:] {
			newIdom := -1
			for _, p := range preds(b) {
				if idom[p] == -1 {
					continue
				}
				if newIdom == -1 {
					newIdom = p
				} else {
					newIdom = intersect(p, newIdom)
				}
			}
			if newIdom != -1 && idom[b] != newIdom {
				idom[b] = newIdom
				changed = true
			}
		}
	}
	info := &pdomInfo{ipdom: make([]int, n)}
	for b := 0; b < n; b++ {
		if idom[b] == exit || idom[b] == -1 {
			info.ipdom[b] = -1
		} else {
			info.ipdom[b] = idom[b]
		}
	}
	pdomCache.Store(fn, info)
	return info
}

// ---------------------------------------------------------------------------

// trySpeculate attempts to if-convert the If at the end of fr.block.
// On success fr.block is the join block, its phis are already assigned, and
// true is returned.
func (fr *frame) trySpeculate(instr *ssa.If, cond sym) (didMerge bool, returned bool) {
	i := fr.i
	if i.noSpec || len(i.spec) >= 10 {
		return false, false
	}
	blk := fr.block
	j := pdomOf(fr.fn).ipdom[blk.Index]
	var join *ssa.BasicBlock // nil: both sides run to their Return
	if j >= 0 {
		join = fr.fn.Blocks[j]
		if join == blk {
			return false, false
		}
	} else if fr.defers != nil || fr.fn.Recover != nil {
		return false, false
	}
	if i.specFailed[instr] >= 2 {
		return false, false // do not keep retrying a site that aborts
	}
	ex := i.ex
	c := ex.ctx

	type sideResult struct {
		arrive *ssa.BasicBlock // predecessor of join through which the side arrived
		writes map[*value]value
		order  []*value
		phis   []value
		result value
	}
	lastWhy := ""
	savedBlock, savedPrev := fr.block, fr.prevBlock
	nTrail, nInputs, nDraws, nVars := len(ex.trail), len(ex.inputs), len(ex.draws), ex.varCount


	runSide := func(k int) (res sideResult, ok bool) {
		log := &specLog{seen: map[*value]bool{}}
		i.spec = append(i.spec, log)
		if k == 0 {
			ex.guards = append(ex.guards, cond.t)
		} else {
			ex.guards = append(ex.guards, c.Not(cond.t))
		}
		saveDepth := i.callDepth
		saveTop := i.top
		defer func() {
			i.spec = i.spec[:len(i.spec)-1]
			ex.guards = ex.guards[:len(ex.guards)-1]
			// roll back memory
			res.writes = map[*value]value{}
			for n := len(log.writes) - 1; n >= 0; n-- {
				w := log.writes[n]
				res.writes[w.p] = *w.p
				*w.p = w.old
			}
			for _, w := range log.writes {
				res.order = append(res.order, w.p)
			}
			fr.block, fr.prevBlock = savedBlock, savedPrev
			if r := recover(); r != nil {
				i.callDepth, i.top = saveDepth, saveTop
				i.failStack = ""
				switch r := r.(type) {
				case specAbort:
					ex.noteAbort(r.why)
					lastWhy = r.why
					if os.Getenv("GOSX_SPECDEBUG") != "" {
						fmt.Fprintf(os.Stderr, "spec depth %d side %d of If at %s aborted: %s\n", len(i.spec), k, fr.fn.Prog.Fset.Position(instr.Cond.Pos()), r.why)
					}
					ok = false
				case targetPanic, runtimeError:
					ok = false // a panic on one side: fork instead
				default:
					if _, isRT := r.(interface{ RuntimeError() }); isRT {
						ok = false
					} else {
						panic(r)
					}
				}
			}
		}()
		fr.prevBlock, fr.block = blk, blk.Succs[k]
		for fr.block != join {
			if fr.block == nil {
				panic(specAbort{"return inside side"})
			}
			if fr.defers != nil {
				panic(specAbort{"defers pending"})
			}
			if fr.block == blk || !blk.Dominates(fr.block) {
				// the side leaves the region dominated by the If (e.g. loops
				// back to a header): SSA values live after the join would differ
				panic(specAbort{"leaves dominated region"})
			}
			cur := fr.block
			nonPhis := executePhis(fr)
			ex.steps += int64(len(nonPhis))
			log.steps += len(nonPhis)
			if log.steps > specStepLimit {
				panic(specAbort{"step limit"})
			}
			for _, in := range nonPhis {
				fr.cur = in
				switch in.(type) {
				case *ssa.Return:
					if join != nil {
						panic(specAbort{"return inside side"})
					}
				case *ssa.Panic, *ssa.Defer, *ssa.RunDefers, *ssa.Go, *ssa.Send, *ssa.Select:
					panic(specAbort{"control instruction"})
				}
				visitInstr(fr, in)
			}
			if join == nil && fr.block == nil {
				res.result = fr.result
				fr.result = nil
				return res, true
			}
			if fr.block == cur && len(cur.Succs) == 0 {
				panic(specAbort{"no successor"})
			}
		}
		res.arrive = fr.prevBlock
		if fr.skipPhis {
			// a nested speculation ended on the join and already assigned
			// the (merged) phi values: take those
			fr.skipPhis = false
			for _, in := range join.Instrs {
				phi, isPhi := in.(*ssa.Phi)
				if !isPhi {
					break
				}
				res.phis = append(res.phis, fr.mustLookup(phi))
			}
			return res, true
		}
		// evaluate the join's phi inputs for this side now
		pi := -1
		for n, p := range join.Preds {
			if p == res.arrive {
				pi = n
				break
			}
		}
		for _, in := range join.Instrs {
			phi, isPhi := in.(*ssa.Phi)
			if !isPhi {
				break
			}
			res.phis = append(res.phis, fr.get(phi.Edges[pi]))
		}
		return res, true
	}

	fail := func() (bool, bool) {
		if i.specFailed == nil {
			i.specFailed = map[*ssa.If]int{}
		}
		// only failures that depend on the code's shape, not on the values at
		// hand, count towards giving up on this site
		if lastWhy == "leaves dominated region" || lastWhy == "control instruction" || lastWhy == "return inside side" ||
			strings.HasPrefix(lastWhy, "external ") || lastWhy == "map update" {
			i.specFailed[instr]++
		}
		// drop anything the aborted sides recorded
		ex.trail = ex.trail[:nTrail]
		ex.inputs = ex.inputs[:nInputs]
		ex.draws = ex.draws[:nDraws]
		_ = nVars
		return false, false
	}

	// A side that cannot be merged is often one the path condition (with the
	// enclosing guards) excludes, e.g. the panicking default of a switch: then
	// the If is decided, not forked. The feasibility queries are only paid
	// when a side fails.
	rt, ok := runSide(0)
	if !ok {
		fail()
		return false, false // branch() decides: forced if a side is infeasible
	}
	rf, ok := runSide(1)
	if !ok {
		return fail()
	}
	// merge phis
	merged := make([]value, len(rt.phis))
	for n := range rt.phis {
		m, ok := i.mergeValues(cond, rt.phis[n], rf.phis[n])
		if !ok {
			return fail()
		}
		merged[n] = m
	}
	// merge memory
	type cellMerge struct {
		p *value
		v value
	}
	var cells []cellMerge
	done := map[*value]bool{}
	for _, side := range []*sideResult{&rt, &rf} {
		for _, p := range side.order {
			if done[p] {
				continue
			}
			done[p] = true
			vt, okT := rt.writes[p]
			if !okT {
				vt = *p
			}
			vf, okF := rf.writes[p]
			if !okF {
				vf = *p
			}
			var m value
			switch {
			case vt == nil:
				m = vf // a cell not yet initialised on one side (a local of a block only that side runs)
			case vf == nil:
				m = vt
			default:
				var ok bool
				m, ok = i.mergeValues(cond, vt, vf)
				if !ok {
					lastWhy = "unmergeable memory"
					return fail()
				}
			}
			cells = append(cells, cellMerge{p, m})
		}
	}
	var mergedResult value
	if join == nil && (rt.result != nil || rf.result != nil) {
		m, ok := i.mergeValues(cond, rt.result, rf.result)
		if !ok {
			return fail()
		}
		mergedResult = m
	}
	// commit
	for _, cm := range cells {
		i.writeCell(cm.p, cm.v)
	}
	ex.Merged++
	if join == nil {
		fr.result = mergedResult
		fr.block = nil
		return true, true
	}
	n := 0
	for _, in := range join.Instrs {
		phi, isPhi := in.(*ssa.Phi)
		if !isPhi {
			break
		}
		fr.set(phi, merged[n])
		n++
	}
	fr.prevBlock, fr.block = rt.arrive, join
	fr.skipPhis = true
	_ = c
	return true, false
}

// mergeValues returns ite(cond, a, b) when that is expressible.
func (i *interpreter) mergeValues(cond sym, a, b value) (value, bool) {
	ex := i.ex
	ka, okA := kindOfValue(a)
	kb, okB := kindOfValue(b)
	if okA && okB && ka == kb {
		return mk(ex.ctx.Ite(cond.t, ex.term(a), ex.term(b)), ka), true
	}
	if isStr(a) && isStr(b) {
		if sa, ok := a.(string); ok {
			if sb, ok := b.(string); ok && sa == sb {
				return a, true
			}
		}
		if strLen(a) == strLen(b) {
			ba, bb := strBytes(a), strBytes(b)
			out := make([]value, len(ba))
			for k := range ba {
				out[k] = mk(ex.ctx.Ite(cond.t, ex.term(ba[k]), ex.term(bb[k])), types.Uint8)
			}
			return mkStr(out), true
		}
		return nil, false
	}
	if sameRef(a, b) {
		return a, true
	}
	switch a := a.(type) {
	case iface:
		bi, ok := b.(iface)
		if !ok || a.t == nil || !sameType(a.t, bi.t) {
			return nil, false
		}
		m, ok := i.mergeValues(cond, a.v, bi.v)
		if !ok {
			return nil, false
		}
		return iface{t: a.t, v: m}, true
	case structure:
		bs, ok := b.(structure)
		if !ok || len(a) != len(bs) {
			return nil, false
		}
		out := make(structure, len(a))
		for k := range a {
			m, ok := i.mergeValues(cond, a[k], bs[k])
			if !ok {
				return nil, false
			}
			out[k] = m
		}
		return out, true
	case array:
		bs, ok := b.(array)
		if !ok || len(a) != len(bs) {
			return nil, false
		}
		out := make(array, len(a))
		for k := range a {
			m, ok := i.mergeValues(cond, a[k], bs[k])
			if !ok {
				return nil, false
			}
			out[k] = m
		}
		return out, true
	case tuple:
		bs, ok := b.(tuple)
		if !ok || len(a) != len(bs) {
			return nil, false
		}
		out := make(tuple, len(a))
		for k := range a {
			m, ok := i.mergeValues(cond, a[k], bs[k])
			if !ok {
				return nil, false
			}
			out[k] = m
		}
		return out, true
	}
	return nil, false
}

// sameRef reports whether two non-scalar values are identical references.
func sameRef(a, b value) bool {
	switch a := a.(type) {
	case *value:
		bb, ok := b.(*value)
		return ok && a == bb
	case string:
		bb, ok := b.(string)
		return ok && a == bb
	case *omap:
		bb, ok := b.(*omap)
		return ok && a == bb
	case *ssa.Function:
		bb, ok := b.(*ssa.Function)
		return ok && a == bb
	case *closure:
		bb, ok := b.(*closure)
		return ok && a == bb
	case nil:
		return b == nil
	case []value:
		bb, ok := b.([]value)
		if !ok || len(a) != len(bb) || cap(a) != cap(bb) {
			return false
		}
		if cap(a) == 0 {
			return (a == nil) == (bb == nil)
		}
		return &a[:1][0] == &bb[:1][0]
	case iface:
		bb, ok := b.(iface)
		if !ok || !sameType(a.t, bb.t) {
			return false
		}
		if a.t == nil {
			return true
		}
		ka, okA := kindOfValue(a.v)
		kb, okB := kindOfValue(bb.v)
		if okA && okB && ka == kb && !isSym(a.v) && !isSym(bb.v) {
			return a.v == bb.v
		}
		return sameRef(a.v, bb.v)
	case float64:
		bb, ok := b.(float64)
		return ok && a == bb
	case float32:
		bb, ok := b.(float32)
		return ok && a == bb
	}
	return false
}
