// Copyright 2013 The Go Authors. All rights reserved.
// Use of this source code is governed by a BSD-style
// license that can be found in the LICENSE file.

// Package ssa/interp defines an interpreter for the SSA
// representation of Go programs.
//
// This interpreter is provided as an adjunct for testing the SSA
// construction algorithm.  Its purpose is to provide a minimal
// metacircular implementation of the dynamic semantics of each SSA
// instruction.  It is not, and will never be, a production-quality Go
// interpreter.
//
// The following is a partial list of Go features that are currently
// unsupported or incomplete in the interpreter.
//
// * Unsafe operations, including all uses of unsafe.Pointer, are
// impossible to support given the "boxed" value representation we
// have chosen.
//
// * The reflect package is only partially implemented.
//
// * The "testing" package is no longer supported because it
// depends on low-level details that change too often.
//
// * "sync/atomic" operations are not atomic due to the "boxed" value
// representation: it is not possible to read, modify and write an
// interface value atomically. As a consequence, Mutexes are currently
// broken.
//
// * recover is only partially implemented.  Also, the interpreter
// makes no attempt to distinguish target panics from interpreter
// crashes.
//
// * the sizes of the int, uint and uintptr types in the target
// program are assumed to be the same as those of the interpreter
// itself.
//
// * all values occupy space, even those of types defined by the spec
// to have zero size, e.g. struct{}.  This can cause asymptotic
// performance degradation.
//
// * os.Exit is implemented using panic, causing deferred functions to
// run.
package interp // import "golang.org/x/tools/go/ssa/interp"

import (
	"fmt"
	"go/token"
	"go/types"
	"log"
	"os"
	"reflect"
	"runtime"
	"path/filepath"
	"slices"
	"strings"
	"sync"
	"sync/atomic"
	_ "unsafe"

	"golang.org/x/tools/go/ssa"
)

type continuation int

const (
	kNext continuation = iota
	kReturn
	kJump
)

// Mode is a bitmask of options affecting the interpreter.
type Mode uint

const (
	DisableRecover Mode = 1 << iota // Disable recover() in target programs; show interpreter crash instead.
	EnableTracing                   // Print a trace of all instructions as they are interpreted.
)

type methodSet map[string]*ssa.Function

// State shared between all interpreted goroutines.
type interpreter struct {
	osArgs             []value                // the value of os.Args
	prog               *ssa.Program           // the SSA program
	globals            map[*ssa.Global]*value // addresses of global variables (immutable)
	mode               Mode                   // interpreter options
	reflectPackage     *ssa.Package           // the fake reflect package
	errorMethods       methodSet              // the method set of reflect.error, which implements the error interface.
	rtypeMethods       methodSet              // the method set of rtype, which implements the reflect.Type interface.
	runtimeErrorString types.Type             // the runtime.errorString type (iff "runtime" is present)
	sizes              types.Sizes            // the effective type-sizing function
	goroutines         int32                  // atomically updated
	ex                 *Exec                  // symbolic execution context (never nil)
	skipInit           map[string]bool        // packages whose init is not run
	callDepth          int
	cfg                *Config
	shared             map[*ssa.Global]*value // read-only globals of table-only packages, initialised once per program
	bootstrap          bool
	inStub             map[string]bool
	top                *frame
	failStack          string
	spec               []*specLog
	noSpec             bool
	specFailed         map[*ssa.If]int
	env                map[string]value // environment variables seen by os.Getenv
}

type deferred struct {
	fn    value
	args  []value
	instr *ssa.Defer
	tail  *deferred
}

type frame struct {
	i                *interpreter
	caller           *frame
	fn               *ssa.Function
	block, prevBlock *ssa.BasicBlock
	idx              *envIndex // SSA value -> slot
	vals             []value   // dynamic values of SSA variables
	locals           []value
	defers           *deferred
	result           value
	panicking        bool
	panic            any
	phitemps         []value // temporaries for parallel phi assignment
	cur              ssa.Instruction
	skipPhis         bool
}

func (fr *frame) get(key ssa.Value) value {
	switch key := key.(type) {
	case nil:
		// Hack; simplifies handling of optional attributes
		// such as ssa.Slice.{Low,High}.
		return nil
	case *ssa.Function, *ssa.Builtin:
		return key
	case *ssa.Const:
		return constValue(key)
	case *ssa.Global:
		if r, ok := fr.i.globals[key]; ok {
			return r
		}
		if r, ok := fr.i.shared[key]; ok {
			return r
		}
		// globals are allocated on first use
		cell := zero(mustDeref(key.Type()))
		fr.i.globals[key] = &cell
		return &cell
	}
	if r, ok := fr.lookup(key); ok {
		return r
	}
	panic(fmt.Sprintf("get: no value for %T: %v", key, key.Name()))
}

// runDefer runs a deferred call d.
// It always returns normally, but may set or clear fr.panic.
func (fr *frame) runDefer(d *deferred) {
	if fr.i.mode&EnableTracing != 0 {
		fmt.Fprintf(os.Stderr, "%s: invoking deferred function call\n",
			fr.i.prog.Fset.Position(d.instr.Pos()))
	}
	var ok bool
	defer func() {
		if !ok {
			// Deferred call created a new state of panic.
			r := recover()
			checkEnginePanic(r)
			fr.panicking = true
			fr.panic = r
		}
	}()
	call(fr.i, fr, d.instr.Pos(), d.fn, d.args)
	ok = true
}

// runDefers executes fr's deferred function calls in LIFO order.
//
// On entry, fr.panicking indicates a state of panic; if
// true, fr.panic contains the panic value.
//
// On completion, if a deferred call started a panic, or if no
// deferred call recovered from a previous state of panic, then
// runDefers itself panics after the last deferred call has run.
//
// If there was no initial state of panic, or it was recovered from,
// runDefers returns normally.
func (fr *frame) runDefers() {
	for d := fr.defers; d != nil; d = d.tail {
		fr.runDefer(d)
	}
	fr.defers = nil
	if fr.panicking {
		panic(fr.panic) // new panic, or still panicking
	}
}

// lookupMethod returns the method set for type typ, which may be one
// of the interpreter's fake types.
func lookupMethod(i *interpreter, typ types.Type, meth *types.Func) *ssa.Function {
	switch typ {
	case rtypeType:
		return i.rtypeMethods[meth.Id()]
	case errorType:
		return i.errorMethods[meth.Id()]
	}
	return i.prog.LookupMethod(typ, meth.Pkg(), meth.Name())
}

// visitInstr interprets a single ssa.Instruction within the activation
// record frame.  It returns a continuation value indicating where to
// read the next instruction from.
func visitInstr(fr *frame, instr ssa.Instruction) continuation {
	switch instr := instr.(type) {
	case *ssa.DebugRef:
		// no-op

	case *ssa.UnOp:
		fr.set(instr, unop(fr, instr, fr.get(instr.X)))

	case *ssa.BinOp:
		fr.set(instr, binop(fr.i, instr.Op, instr.X.Type(), fr.get(instr.X), fr.get(instr.Y)))

	case *ssa.Call:
		fn, args := prepareCall(fr, &instr.Call)
		fr.set(instr, call(fr.i, fr, instr.Pos(), fn, args))

	case *ssa.ChangeInterface:
		fr.set(instr, fr.get(instr.X))

	case *ssa.ChangeType:
		fr.set(instr, fr.get(instr.X)) // (can't fail)

	case *ssa.Convert:
		fr.set(instr, conv(fr.i, instr.Type(), instr.X.Type(), fr.get(instr.X)))

	case *ssa.SliceToArrayPointer:
		fr.set(instr, sliceToArrayPointer(instr.Type(), instr.X.Type(), fr.get(instr.X)))

	case *ssa.MakeInterface:
		fr.set(instr, iface{t: instr.X.Type(), v: fr.get(instr.X)})

	case *ssa.Extract:
		fr.set(instr, fr.get(instr.Tuple).(tuple)[instr.Index])

	case *ssa.Slice:
		fr.set(instr, slice(fr.i, fr.get(instr.X), fr.get(instr.Low), fr.get(instr.High), fr.get(instr.Max)))

	case *ssa.Return:
		switch len(instr.Results) {
		case 0:
		case 1:
			fr.result = fr.get(instr.Results[0])
		default:
			var res []value
			for _, r := range instr.Results {
				res = append(res, fr.get(r))
			}
			fr.result = tuple(res)
		}
		fr.block = nil
		return kReturn

	case *ssa.RunDefers:
		fr.runDefers()

	case *ssa.Panic:
		panic(targetPanic{fr.get(instr.X)})

	case *ssa.Send:
		fr.get(instr.Chan).(chan value) <- fr.get(instr.X)

	case *ssa.Store:
		addr := fr.get(instr.Addr)
		if sp, ok := addr.(symPtr); ok {
			fr.i.indexWrite(sp.base, sp.idx, fr.get(instr.Val))
		} else {
			if addr.(*value) == nil {
				panic(runtimeError("invalid memory address or nil pointer dereference"))
			}
			fr.i.store(mustDeref(instr.Addr.Type()), addr.(*value), fr.get(instr.Val))
		}

	case *ssa.If:
		succ := 1
		cv := fr.get(instr.Cond)
		if s, ok := cv.(sym); ok {
			if merged, returned := fr.trySpeculate(instr, s); merged {
				if returned {
					return kReturn
				}
				return kJump
			}
		}
		if fr.condBool(cv) {
			succ = 0
		}
		fr.prevBlock, fr.block = fr.block, fr.block.Succs[succ]
		return kJump

	case *ssa.Jump:
		fr.prevBlock, fr.block = fr.block, fr.block.Succs[0]
		return kJump

	case *ssa.Defer:
		fn, args := prepareCall(fr, &instr.Call)
		defers := &fr.defers
		if into := fr.get(instr.DeferStack); into != nil {
			defers = into.(**deferred)
		}
		*defers = &deferred{
			fn:    fn,
			args:  args,
			instr: instr,
			tail:  *defers,
		}

	case *ssa.Go:
		fn, args := prepareCall(fr, &instr.Call)
		// goroutines are run to completion at the go statement (deterministic)
		atomic.AddInt32(&fr.i.goroutines, 1)
		call(fr.i, nil, instr.Pos(), fn, args)
		atomic.AddInt32(&fr.i.goroutines, -1)

	case *ssa.MakeChan:
		fr.set(instr, make(chan value, fr.i.concInt(fr.get(instr.Size))))

	case *ssa.Alloc:
		var addr *value
		if instr.Heap {
			// new
			addr = new(value)
			fr.set(instr, addr)
		} else {
			// local
			addr = fr.mustLookup(instr).(*value)
		}
		fr.i.writeCell(addr, zero(mustDeref(instr.Type())))

	case *ssa.MakeSlice:
		slice := make([]value, fr.i.concInt(fr.get(instr.Cap)))
		tElt := instr.Type().Underlying().(*types.Slice).Elem()
		for i := range slice {
			slice[i] = zero(tElt)
		}
		fr.set(instr, slice[:fr.i.concInt(fr.get(instr.Len))])

	case *ssa.MakeMap:
		var reserve int64
		if instr.Reserve != nil {
			reserve = fr.i.concInt(fr.get(instr.Reserve))
		}
		if !fitsInt(reserve, fr.i.sizes) {
			panic(fmt.Sprintf("ssa.MakeMap.Reserve value %d does not fit in int", reserve))
		}
		fr.set(instr, makeMap(instr.Type().Underlying().(*types.Map).Key(), reserve))

	case *ssa.Range:
		fr.set(instr, rangeIter(fr, fr.get(instr.X)))

	case *ssa.Next:
		fr.set(instr, fr.get(instr.Iter).(iter).next())

	case *ssa.FieldAddr:
		p := fr.ptr(fr.get(instr.X))
		if p == nil {
			panic(runtimeError("invalid memory address or nil pointer dereference"))
		}
		fr.set(instr, &(*p).(structure)[instr.Field])

	case *ssa.Field:
		fr.set(instr, fr.get(instr.X).(structure)[instr.Field])

	case *ssa.IndexAddr:
		x := fr.get(instr.X)
		idx := fr.get(instr.Index)
		if sidx, ok := idx.(sym); ok {
			var base []value
			switch x := x.(type) {
			case []value:
				base = x
			case *value:
				base = (*x).(array)
			default:
				panic(fmt.Sprintf("unexpected x type in IndexAddr: %T", x))
			}
			fr.set(instr, symPtr{base, sidx})
			break
		}
		switch x := x.(type) {
		case []value:
			fr.set(instr, &x[asInt64(idx)])
		case *value: // *array
			fr.set(instr, &(*x).(array)[asInt64(idx)])
		default:
			panic(fmt.Sprintf("unexpected x type in IndexAddr: %T", x))
		}

	case *ssa.Index:
		x := fr.get(instr.X)
		idx := fr.get(instr.Index)

		if sidx, ok := idx.(sym); ok {
			switch x := x.(type) {
			case array:
				fr.set(instr, fr.i.indexRead(x, sidx))
			case string, symstr:
				fr.set(instr, fr.i.indexRead(strBytes(x), sidx))
			default:
				panic(fmt.Sprintf("unexpected x type in Index: %T", x))
			}
			break
		}
		switch x := x.(type) {
		case array:
			fr.set(instr, x[asInt64(idx)])
		case string:
			fr.set(instr, x[asInt64(idx)])
		case symstr:
			fr.set(instr, x.b[asInt64(idx)])
		default:
			panic(fmt.Sprintf("unexpected x type in Index: %T", x))
		}

	case *ssa.Lookup:
		fr.set(instr, lookup(fr.i, instr, fr.get(instr.X), fr.get(instr.Index)))

	case *ssa.MapUpdate:
		m := fr.get(instr.Map)
		key := fr.get(instr.Key)
		v := fr.get(instr.Value)
		fr.i.specForbid("map update")
		switch m := m.(type) {
		case *omap:
			m.insert(fr.i, key, v)
		default:
			panic(fmt.Sprintf("illegal map type: %T", m))
		}

	case *ssa.TypeAssert:
		fr.set(instr, typeAssert(instr, fr.get(instr.X).(iface)))

	case *ssa.MakeClosure:
		var bindings []value
		for _, binding := range instr.Bindings {
			bindings = append(bindings, fr.get(binding))
		}
		fr.set(instr, &closure{instr.Fn.(*ssa.Function), bindings})

	case *ssa.Phi:
		log.Fatal("unreachable") // phis are processed at block entry

	case *ssa.Select:
		var cases []reflect.SelectCase
		if !instr.Blocking {
			cases = append(cases, reflect.SelectCase{
				Dir: reflect.SelectDefault,
			})
		}
		for _, state := range instr.States {
			var dir reflect.SelectDir
			if state.Dir == types.RecvOnly {
				dir = reflect.SelectRecv
			} else {
				dir = reflect.SelectSend
			}
			var send reflect.Value
			if state.Send != nil {
				send = reflect.ValueOf(fr.get(state.Send))
			}
			cases = append(cases, reflect.SelectCase{
				Dir:  dir,
				Chan: reflect.ValueOf(fr.get(state.Chan)),
				Send: send,
			})
		}
		chosen, recv, recvOk := reflect.Select(cases)
		if !instr.Blocking {
			chosen-- // default case should have index -1.
		}
		r := tuple{chosen, recvOk}
		for i, st := range instr.States {
			if st.Dir == types.RecvOnly {
				var v value
				if i == chosen && recvOk {
					// No need to copy since send makes an unaliased copy.
					v = recv.Interface().(value)
				} else {
					v = zero(st.Chan.Type().Underlying().(*types.Chan).Elem())
				}
				r = append(r, v)
			}
		}
		fr.set(instr, r)

	default:
		panic(fmt.Sprintf("unexpected instruction: %T", instr))
	}

	// if val, ok := instr.(ssa.Value); ok {
	// 	fmt.Println(toString(fr.env[val])) // debugging
	// }

	return kNext
}

// prepareCall determines the function value and argument values for a
// function call in a Call, Go or Defer instruction, performing
// interface method lookup if needed.
func prepareCall(fr *frame, call *ssa.CallCommon) (fn value, args []value) {
	v := fr.get(call.Value)
	if call.Method == nil {
		// Function call.
		fn = v
	} else {
		// Interface method invocation.
		recv := v.(iface)
		if recv.t == nil {
			panic("method invoked on nil interface")
		}
		if f := lookupMethod(fr.i, recv.t, call.Method); f == nil {
			// Unreachable in well-typed programs.
			panic(fmt.Sprintf("method set for dynamic type %v does not contain %s", recv.t, call.Method))
		} else {
			fn = f
		}
		args = append(args, recv.v)
	}
	for _, arg := range call.Args {
		args = append(args, fr.get(arg))
	}
	return
}

// call interprets a call to a function (function, builtin or closure)
// fn with arguments args, returning its result.
// callpos is the position of the callsite.
func call(i *interpreter, caller *frame, callpos token.Pos, fn value, args []value) value {
	switch fn := fn.(type) {
	case *ssa.Function:
		if fn == nil {
			panic("call of nil function") // nil of func type
		}
		return callSSA(i, caller, callpos, fn, args, nil)
	case *closure:
		return callSSA(i, caller, callpos, fn.Fn, args, fn.Env)
	case *ssa.Builtin:
		return callBuiltin(caller, fn, args)
	}
	panic(fmt.Sprintf("cannot call %T", fn))
}

func loc(fset *token.FileSet, pos token.Pos) string {
	if pos == token.NoPos {
		return ""
	}
	return " at " + fset.Position(pos).String()
}

// callSSA interprets a call to function fn with arguments args,
// and lexical environment env, returning its result.
// callpos is the position of the callsite.
func callSSA(i *interpreter, caller *frame, callpos token.Pos, fn *ssa.Function, args []value, env []value) value {
	if i.mode&EnableTracing != 0 {
		fset := fn.Prog.Fset
		// TODO(adonovan): fix: loc() lies for external functions.
		fmt.Fprintf(os.Stderr, "Entering %s%s.\n", fn, loc(fset, fn.Pos()))
		suffix := ""
		if caller != nil {
			suffix = ", resuming " + caller.fn.String() + loc(fset, callpos)
		}
		defer fmt.Fprintf(os.Stderr, "Leaving %s%s.\n", fn, suffix)
	}
	fr := &frame{
		i:      i,
		caller: caller, // for panic/recover
		fn:     fn,
	}
	fi := infoOf(fn)
	if len(i.ex.stubs) > 0 {
		if st, ok := i.ex.stubs[fi.name]; ok && !i.inStub[fi.name] {
			i.inStub[fi.name] = true
			defer delete(i.inStub, fi.name)
			if len(env) > 0 {
				unmodelled("stub of a closure: %s", fi.name)
			}
			return call(i, caller, callpos, st, args)
		}
	}
	if fi.garble {
		i.ex.funcs[fi.name]++
	}
	if fn.Parent() == nil {
		if fi.ext != nil {
			if len(i.spec) > 0 && !fi.pure {
				panic(specAbort{"external " + fi.name})
			}
			if i.mode&EnableTracing != 0 {
				fmt.Fprintln(os.Stderr, "\t(external)")
			}
			if r := fi.ext(fr, args); r != (notHandled{}) {
				return r
			}
		}
		if fn.Blocks == nil {
			unmodelled("no code for function: %s", fi.name)
		}
		if i.bootstrap && fn.Name() == "init" && fn.Pkg != nil && fn.Synthetic != "" && !sharedInitPkgs[fn.Pkg.Pkg.Path()] {
			return nil
		}
		if fn.Name() == "init" && fn.Pkg != nil && fn.Synthetic != "" {
			// fast path: package already initialised
			if g := fn.Pkg.Var("init$guard"); g != nil {
				if c, ok := i.globals[g]; ok {
					if b, _ := (*c).(bool); b {
						return nil
					}
				} else if c, ok := i.shared[g]; ok {
					if b, _ := (*c).(bool); b {
						return nil
					}
				}
			}
		}
		if fn.Name() == "init" && fn.Pkg != nil && fn.Synthetic != "" && skipInitOf(i.cfg, fn.Pkg.Pkg.Path()) {
			// the package's own initialisation is skipped, its imports' is not
			path := fn.Pkg.Pkg.Path()
			if !i.skipInit[path] {
				i.skipInit[path] = true
				for _, imp := range fn.Pkg.Pkg.Imports() {
					if p := i.prog.Package(imp); p != nil {
						if f := p.Func("init"); f != nil {
							call(i, caller, callpos, f, nil)
						}
					}
				}
				if path == "os" {
					// the portable error values are aliases of io/fs's (os.IsNotExist and friends compare with them)
					for _, n := range []string{"ErrInvalid", "ErrPermission", "ErrExist", "ErrNotExist", "ErrClosed"} {
						if g, ok := fn.Pkg.Members[n].(*ssa.Global); ok {
							v := i.fsErr(n)
							i.globals[g] = &v
						}
					}
				}
			}
			return nil
		}
	}
	i.callDepth++
	saveTop := i.top
	i.top = fr
	defer func() {
		if r := recover(); r != nil {
			if i.failStack == "" {
				i.failStack = i.stackString()
			}
			i.top = saveTop
			panic(r)
		}
		i.top = saveTop
	}()
	if i.callDepth > 4000 {
		panic(pathEnd{"unwound", "call depth 4000 reached in " + fi.name})
	}
	defer func() { i.callDepth-- }()

	// generic function body?
	if fn.TypeParams().Len() > 0 && len(fn.TypeArgs()) == 0 {
		panic("interp requires ssa.BuilderMode to include InstantiateGenerics to execute generics")
	}

	fr.idx = envIndexOf(fn)
	fr.vals = make([]value, fr.idx.n)
	fr.block = fn.Blocks[0]
	fr.locals = make([]value, len(fn.Locals))
	for i, l := range fn.Locals {
		// the Alloc instruction zeroes the cell when it executes
		fr.set(l, &fr.locals[i])
	}
	for i, p := range fn.Params {
		fr.set(p, args[i])
	}
	for i, fv := range fn.FreeVars {
		fr.set(fv, env[i])
	}
	for fr.block != nil {
		runFrame(fr)
	}
	// Destroy the locals to avoid accidental use after return.
	for i := range fn.Locals {
		fr.locals[i] = bad{}
	}
	return fr.result
}

// runFrame executes SSA instructions starting at fr.block and
// continuing until a return, a panic, or a recovered panic.
//
// After a panic, runFrame panics.
//
// After a normal return, fr.result contains the result of the call
// and fr.block is nil.
//
// A recovered panic in a function without named return parameters
// (NRPs) becomes a normal return of the zero value of the function's
// result type.
//
// After a recovered panic in a function with NRPs, fr.result is
// undefined and fr.block contains the block at which to resume
// control.
func runFrame(fr *frame) {
	defer func() {
		if fr.block == nil {
			return // normal return
		}
		if fr.i.mode&DisableRecover != 0 {
			return // let interpreter crash
		}
		r := recover()
		checkEnginePanic(r)
		fr.panicking = true
		fr.panic = r
		if fr.i.mode&EnableTracing != 0 {
			fmt.Fprintf(os.Stderr, "Panicking: %T %v.\n", fr.panic, fr.panic)
		}
		fr.runDefers()
		fr.block = fr.fn.Recover
	}()

	ex := fr.i.ex
	for {
		if fr.i.mode&EnableTracing != 0 {
			fmt.Fprintf(os.Stderr, ".%s:\n", fr.block)
		}
		ex.steps += int64(len(fr.block.Instrs))
		if ex.MaxSteps > 0 && ex.steps > ex.MaxSteps {
			panic(pathEnd{"unwound", fmt.Sprintf("step limit %d reached in %s", ex.MaxSteps, fr.fn)})
		}

		nonPhis := executePhis(fr)
		for _, instr := range nonPhis {
			if fr.i.mode&EnableTracing != 0 {
				if v, ok := instr.(ssa.Value); ok {
					fmt.Fprintln(os.Stderr, "\t", v.Name(), "=", instr)
				} else {
					fmt.Fprintln(os.Stderr, "\t", instr)
				}
			}
			fr.cur = instr
			if visitInstr(fr, instr) == kReturn {
				return
			}
			// Inv: kNext (continue) or kJump (last instr)
		}
	}
}

// executePhis executes the phi-nodes at the start of the current
// block and returns the non-phi instructions.
func executePhis(fr *frame) []ssa.Instruction {
	firstNonPhi := -1
	for i, instr := range fr.block.Instrs {
		if _, ok := instr.(*ssa.Phi); !ok {
			firstNonPhi = i
			break
		}
	}
	// Inv: 0 <= firstNonPhi; every block contains a non-phi.

	nonPhis := fr.block.Instrs[firstNonPhi:]
	if fr.skipPhis {
		fr.skipPhis = false
		return nonPhis
	}
	if firstNonPhi > 0 {
		phis := fr.block.Instrs[:firstNonPhi]
		// Execute parallel assignment of phis.
		//
		// See "the swap problem" in Briggs et al's "Practical Improvements
		// to the Construction and Destruction of SSA Form" for discussion.
		predIndex := slices.Index(fr.block.Preds, fr.prevBlock)
		fr.phitemps = fr.phitemps[:0]
		for _, phi := range phis {
			phi := phi.(*ssa.Phi)
			if fr.i.mode&EnableTracing != 0 {
				fmt.Fprintln(os.Stderr, "\t", phi.Name(), "=", phi)
			}
			fr.phitemps = append(fr.phitemps, fr.get(phi.Edges[predIndex]))
		}
		for i, phi := range phis {
			fr.set(phi.(*ssa.Phi), fr.phitemps[i])
		}
	}
	return nonPhis
}

// doRecover implements the recover() built-in.
func doRecover(caller *frame) value {
	// recover() must be exactly one level beneath the deferred
	// function (two levels beneath the panicking function) to
	// have any effect.  Thus we ignore both "defer recover()" and
	// "defer f() -> g() -> recover()".
	if caller.i.mode&DisableRecover == 0 &&
		caller != nil && !caller.panicking &&
		caller.caller != nil && caller.caller.panicking {
		caller.caller.panicking = false
		p := caller.caller.panic
		caller.caller.panic = nil

		// TODO(adonovan): support runtime.Goexit.
		switch p := p.(type) {
		case targetPanic:
			// The target program explicitly called panic().
			return p.v
		case runtime.Error:
			// The interpreter encountered a runtime error.
			return iface{caller.i.runtimeErrorString, p.Error()}
		case string:
			// The interpreter explicitly called panic().
			return iface{caller.i.runtimeErrorString, p}
		default:
			panic(fmt.Sprintf("unexpected panic type %T in target call to recover()", p))
		}
	}
	return iface{}
}


// stackString renders the target call stack (innermost first).
func (i *interpreter) stackString() string {
	var sb strings.Builder
	n := 0
	for f := i.top; f != nil && n < 14; f = f.caller {
		pos := ""
		if f.cur != nil && f.cur.Pos().IsValid() {
			p := i.prog.Fset.Position(f.cur.Pos())
			pos = fmt.Sprintf(" (%s:%d)", filepath.Base(p.Filename), p.Line)
		}
		fmt.Fprintf(&sb, "\n    %s%s", f.fn, pos)
		n++
	}
	return sb.String()
}

var (
	localsProf   map[string]int64
	localsProfMu sync.Mutex
)

func i_sizeof(t types.Type) int64 {
	defer func() { recover() }()
	return (&types.StdSizes{WordSize: 8, MaxAlign: 8}).Sizeof(t)
}

func init() {
	if os.Getenv("GOSX_PROF_LOCALS") != "" {
		localsProf = map[string]int64{}
	}
}

// DumpLocalsProf prints the biggest local-variable allocators.
func DumpLocalsProf() {
	if localsProf == nil {
		return
	}
	type kv struct {
		k string
		v int64
	}
	var l []kv
	for k, v := range localsProf {
		l = append(l, kv{k, v})
	}
	slices.SortFunc(l, func(a, b kv) int { return int(b.v - a.v) })
	for i := 0; i < len(l) && i < 15; i++ {
		fmt.Fprintf(os.Stderr, "locals %12d %s\n", l[i].v, l[i].k)
	}
}
