package interp

import (
	"fmt"
	"go/token"
	"go/types"
	"os"
	"runtime"
	"runtime/debug"
	"sort"
	"strings"
	"sync"
	"time"

	"golang.org/x/tools/go/ssa"

	"gosx/smt"
)

// checkEnginePanic re-panics values that must not be visible to the target
// program's defer/recover machinery.
func checkEnginePanic(r any) {
	switch r := r.(type) {
	case pathEnd:
		panic(r)
	case specAbort:
		panic(r)
	case *runtime.TypeAssertionError:
		panic(pathEnd{"engine", r.Error() + "\n" + string(debug.Stack())})
	case engineBug:
		panic(pathEnd{"engine", string(r)})
	}
}

type engineBug string

var prepareOnce sync.Map // *ssa.Program -> *sync.Once

// Config configures the exploration of one harness.
type Config struct {
	Main       *ssa.Package
	Harness    string // name of a func() in Main
	Workers    int
	Solver     string // primary backend name
	Second     string // cross-check backend for deciding queries ("" = none)
	TimeoutMS  int    // per query
	MaxDepth   int    // decisions per path
	MaxSteps   int64  // SSA instructions per path
	MaxPaths   int    // stop after that many completed paths (0 = unlimited)
	Deadline   time.Time
	SkipInit   []string // extra package path prefixes whose init is skipped
	Trace      bool
	Witnesses  int  // number of satisfying end-of-path models to keep
	NoSpec     bool // disable if-conversion
	CrossCheck bool // answer every deciding query with both solvers
}

// PathInfo summarises a path that did not complete normally.
type PathInfo struct {
	Kind  string
	Msg   string
	Trail string
}

// Result is the outcome of exploring one harness.
type Result struct {
	Harness      string
	Paths        int // completed feasible paths (incl. those ending in expected panics)
	Infeasible   int
	Incomplete   []PathInfo // unmodelled / unwound / unknown / engine
	Violations   []*Violation
	Reached      map[string]int
	Branches     int
	Forced       int
	Concretized  int
	Merged       int
	QuickDecided int
	Deciding     int
	Disagree     int
	Fallbacks    int
	Steps        int64
	SolverStats  map[string]smt.Stats
	Witnesses    []Witness
	Notes        []string
	Stubs        []string
	Wall         float64
	Exhausted    bool // worklist ran empty (not stopped by MaxPaths/deadline)
	Functions    map[string]int64
	ForkSites    map[string]int
}

// Witness is a satisfying model of a completed path with the observations
// the engine predicts for it.
type Witness struct {
	Inputs   []InputRec
	Draws    []DrawRec
	Observed []string
	Trail    string
}

func trailString(t []decision) string {
	var sb strings.Builder
	for _, d := range t {
		switch {
		case d.forced && d.taken:
			sb.WriteByte('T')
		case d.forced:
			sb.WriteByte('F')
		case d.taken:
			sb.WriteByte('1')
		default:
			sb.WriteByte('0')
		}
	}
	return sb.String()
}

var defaultSkipInit = []string{
	"runtime", "internal/", "sync", "syscall", "os", "reflect", "time", "log", "io/fs",
	"golang.org/x/tools/go/ast/edge", "golang.org/x/tools/go/ast/inspector",
	"crypto/", "hash/", "math/rand", "errors", "path/filepath", "os/exec", "testing", "flag",
	"golang.org/x/sys", "github.com/rogpeppe/go-internal", "runtime/debug", "io/ioutil",
	"encoding/gob", "context", "net", "vendor/", "iter", "weak", "unique",
}

func newInterpreter(cfg *Config, ex *Exec) *interpreter {
	i := &interpreter{
		prog:       cfg.Main.Prog,
		globals:    make(map[*ssa.Global]*value),
		sizes:      &types.StdSizes{WordSize: 8, MaxAlign: 8},
		goroutines: 1,
		ex:         ex,
		skipInit:   map[string]bool{},
		inStub:     map[string]bool{},
	}
	if cfg.Trace {
		i.mode |= EnableTracing
	}
	if rt := i.prog.ImportedPackage("runtime"); rt != nil {
		i.runtimeErrorString = rt.Type("errorString").Object().Type()
	}
	o, _ := prepareOnce.LoadOrStore(i.prog, new(sync.Once))
	o.(*sync.Once).Do(func() { prepareProgram(i.prog) })
	initReflect(i)
	if ex != nil && !ex.bootstrap {
		i.shared = sharedGlobalsOf(cfg)
	}
	return i
}

func skipInitOf(cfg *Config, path string) bool {
	for _, p := range defaultSkipInit {
		if path == p || strings.HasSuffix(p, "/") && strings.HasPrefix(path, p) || strings.HasPrefix(path, p+"/") {
			return !keepInit[path]
		}
	}
	for _, p := range cfg.SkipInit {
		if path == p || strings.HasPrefix(path, p+"/") {
			return true
		}
	}
	return false
}

// keepInit lists packages under a skipped prefix whose init is pure and needed.
var keepInit = map[string]bool{
	"internal/byteorder": true, "internal/stringslite": true, "internal/itoa": true,
	"internal/goarch": true, "internal/goos": true, "internal/unsafeheader": true,
	"crypto/sha256": false, "hash/fnv": true, "hash/crc32": false, "hash/maphash": false,
	"internal/types/errors": true, "internal/goversion": true, "internal/lazyregexp": true,
	"internal/buildcfg": false, "internal/gover": true, "internal/godebugs": true,
	"errors": false, "internal/filepathlite": true, "internal/bisect": true, "internal/oserror": true, "io/fs": true,
}

type workItem struct{ prefix []decision }

// Explore runs the harness over all feasible paths.
func Explore(cfg Config) *Result {
	start := time.Now()
	res := &Result{Harness: cfg.Harness, Reached: map[string]int{}, SolverStats: map[string]smt.Stats{}, Functions: map[string]int64{}, ForkSites: map[string]int{}}
	fn := cfg.Main.Func(cfg.Harness)
	if fn == nil {
		res.Incomplete = append(res.Incomplete, PathInfo{Kind: "engine", Msg: "no such harness function: " + cfg.Harness})
		return res
	}
	if cfg.Workers <= 0 {
		cfg.Workers = 1
	}
	var mu sync.Mutex
	cond := sync.NewCond(&mu)
	work := []workItem{{nil}}
	active := 0
	stopped := false
	stubs := map[string]bool{}
	notes := map[string]bool{}
	vioSeen := map[string]bool{}
	lastProgress := time.Now()

	worker := func() {
		solver, err := smt.Start(smt.Backends[cfg.Solver], cfg.TimeoutMS)
		if err != nil {
			mu.Lock()
			res.Incomplete = append(res.Incomplete, PathInfo{Kind: "engine", Msg: "cannot start solver: " + err.Error()})
			stopped = true
			cond.Broadcast()
			mu.Unlock()
			return
		}
		defer solver.Close()
		var second *smt.Solver
		if cfg.Second != "" {
			second, err = smt.Start(smt.Backends[cfg.Second], cfg.TimeoutMS)
			if err == nil {
				defer second.Close()
			}
		}
		for {
			mu.Lock()
			for len(work) == 0 && active > 0 && !stopped {
				cond.Wait()
			}
			if stopped || len(work) == 0 {
				mu.Unlock()
				cond.Broadcast()
				return
			}
			// depth-first: take the most recent item
			it := work[len(work)-1]
			work = work[:len(work)-1]
			active++
			mu.Unlock()

			ex, kind, msg := runPath(&cfg, fn, it.prefix, solver, second)

			mu.Lock()
			active--
			switch kind {
			case "ok":
				res.Paths++
			case "assume-false", "infeasible":
				res.Infeasible++
			default:
				if len(res.Incomplete) < 20 {
					res.Incomplete = append(res.Incomplete, PathInfo{Kind: kind, Msg: msg, Trail: trailString(ex.trail)})
				} else {
					res.Incomplete = append(res.Incomplete[:19], PathInfo{Kind: kind, Msg: "(more omitted) " + msg})
				}
			}
			for _, v := range ex.violation {
				key := v.Msg
				if !vioSeen[key] || len(res.Violations) < 3 {
					if len(res.Violations) < 8 {
						res.Violations = append(res.Violations, v)
					}
					vioSeen[key] = true
				}
			}
			for tag := range ex.reached {
				res.Reached[tag]++
			}
			for s := range ex.stubs {
				stubs[s] = true
			}
			for _, n := range ex.notes {
				notes[n] = true
			}
			if kind == "ok" && len(res.Witnesses) < cfg.Witnesses && len(ex.witnessBuf) > 0 {
				res.Witnesses = append(res.Witnesses, ex.witnessBuf...)
			}
			res.Branches += ex.Branches
			res.Forced += ex.ForcedCount
			res.Concretized += ex.Concretized
			res.Merged += ex.Merged
			res.QuickDecided += ex.QuickDecided
			res.Deciding += ex.DecidingQ
			res.Disagree += ex.Disagree
			res.Fallbacks += ex.Fallbacks
			res.Steps += ex.steps
			for f, n := range ex.funcs {
				res.Functions[f] += n
			}
			for f, n := range ex.forkSites {
				res.ForkSites[f] += n
			}
			for _, alt := range ex.alts {
				work = append(work, workItem{alt})
			}
			if time.Since(lastProgress) > 15*time.Second {
				lastProgress = time.Now()
				fmt.Fprintf(os.Stderr, "gosx: %s: %d paths, %d infeasible, %d queued, %.0fs\n", cfg.Harness, res.Paths, res.Infeasible, len(work), time.Since(start).Seconds())
			}
			if cfg.MaxPaths > 0 && res.Paths >= cfg.MaxPaths || !cfg.Deadline.IsZero() && time.Now().After(cfg.Deadline) {
				stopped = true
			}
			cond.Broadcast()
			mu.Unlock()
		}
	}
	var wg sync.WaitGroup
	statsMu := sync.Mutex{}
	_ = statsMu
	for w := 0; w < cfg.Workers; w++ {
		wg.Add(1)
		go func() {
			defer wg.Done()
			worker()
		}()
	}
	wg.Wait()
	res.Exhausted = len(work) == 0 && !stopped
	for s := range stubs {
		res.Stubs = append(res.Stubs, s)
	}
	sort.Strings(res.Stubs)
	for n := range notes {
		res.Notes = append(res.Notes, n)
	}
	sort.Strings(res.Notes)
	res.SolverStats = collectStats()
	res.Wall = time.Since(start).Seconds()
	return res
}

var (
	statsLock sync.Mutex
	statsAcc  = map[string]smt.Stats{}
)

func addStats(name string, s smt.Stats) {
	statsLock.Lock()
	defer statsLock.Unlock()
	a := statsAcc[name]
	a.Queries += s.Queries
	a.Sat += s.Sat
	a.Unsat += s.Unsat
	a.Unknown += s.Unknown
	a.Errors += s.Errors
	a.Time += s.Time
	if s.MaxQuery > a.MaxQuery {
		a.MaxQuery = s.MaxQuery
	}
	statsAcc[name] = a
}

func collectStats() map[string]smt.Stats {
	statsLock.Lock()
	defer statsLock.Unlock()
	out := statsAcc
	statsAcc = map[string]smt.Stats{}
	return out
}

// runPath executes the harness once along prefix.
func runPath(cfg *Config, fn *ssa.Function, prefix []decision, solver, second *smt.Solver) (ex *Exec, kind, msg string) {
	ex = &Exec{
		ctx:         smt.NewCtx(),
		solver:      solver,
		second:      second,
		prefix:      prefix,
		MaxDepth:    cfg.MaxDepth,
		MaxSteps:    cfg.MaxSteps,
		reached:     map[string]bool{},
		stubs:       map[string]value{},
		drawBounds:  map[string]int64{},
		funcs:       map[string]int64{},
		modelOK:     true,
		model:       map[string]uint64{},
		wantWitness: cfg.Witnesses > 0,
		crossCheck:  cfg.CrossCheck,
		rewound:     -1,
	}
	solver.Reset()
	before := solver.Stats
	var before2 smt.Stats
	if second != nil {
		before2 = second.Stats
	}
	defer func() {
		d := solver.Stats
		d.Queries -= before.Queries
		d.Sat -= before.Sat
		d.Unsat -= before.Unsat
		d.Unknown -= before.Unknown
		d.Errors -= before.Errors
		d.Time -= before.Time
		addStats(solver.B.Name, d)
		if second != nil {
			d := second.Stats
			d.Queries -= before2.Queries
			d.Sat -= before2.Sat
			d.Unsat -= before2.Unsat
			d.Unknown -= before2.Unknown
			d.Errors -= before2.Errors
			d.Time -= before2.Time
			addStats(second.B.Name, d)
		}
	}()
	i := newInterpreter(cfg, ex)
	i.cfg = cfg
	i.noSpec = cfg.NoSpec
	ex.in = i
	kind, msg = "ok", ""
	func() {
		defer func() {
			r := recover()
			if r == nil {
				return
			}
			switch p := r.(type) {
			case pathEnd:
				kind, msg = p.kind, p.msg
				if kind == "unmodelled" || kind == "engine" {
					msg += i.failStack
				}
			case *runtime.TypeAssertionError:
				kind, msg = "engine", p.Error()+"\n"+string(debug.Stack())
			case targetPanic:
				ex.fail("unexpected panic: " + panicString(i, p.v) + i.failStack)
				kind = "ok"
			case runtime.Error:
				if _, ok := p.(runtimeError); ok || isTargetRuntimeError(p) {
					if !ex.initDone {
						kind, msg = "engine", "panic during package init: "+p.Error()+i.failStack
					} else {
						ex.fail("unexpected run-time panic: " + p.Error() + i.failStack)
						kind = "ok"
					}
				} else {
					kind, msg = "engine", p.Error()+i.failStack+"\n"+string(debug.Stack())
				}
			case exitPanic:
				ex.fail(fmt.Sprintf("unexpected os.Exit(%d)", int(p)))
				kind = "ok"
			case string:
				kind, msg = "engine", p+"\n"+string(debug.Stack())
			default:
				kind, msg = "engine", fmt.Sprintf("%T: %v\n%s", r, r, debug.Stack())
			}
		}()
		call(i, nil, token.NoPos, cfg.Main.Func("init"), nil)
		ex.initDone = true
		call(i, nil, token.NoPos, fn, nil)
		ex.endOfPath()
	}()
	if cfg.Trace {
		fmt.Fprintf(os.Stderr, "path %s: %s %s\n", trailString(ex.trail), kind, msg)
	}
	return
}

func isTargetRuntimeError(e runtime.Error) bool {
	s := e.Error()
	return strings.Contains(s, "index out of range") || strings.Contains(s, "slice bounds out of range") ||
		strings.Contains(s, "nil pointer dereference") || strings.Contains(s, "divide by zero") ||
		strings.Contains(s, "nil map") || strings.Contains(s, "makeslice") || strings.Contains(s, "negative shift")
}

func panicString(i *interpreter, v value) string {
	if it, ok := v.(iface); ok {
		if s, ok := it.v.(string); ok {
			return s
		}
		if it.t != nil {
			// error values: call Error() if present
			defer func() { recover() }()
			if m := i.prog.LookupMethod(it.t, nil, "Error"); m != nil {
				r := call(i, nil, token.NoPos, m, []value{it.v})
				return toString(r)
			}
		}
	}
	return toString(v)
}

// fail records a violation on the current path with a model of the pc.
func (ex *Exec) fail(msg string) {
	if !ex.modelOK {
		r, m := ex.check(nil, true)
		if r != smt.Sat {
			return // path condition not (known) satisfiable: not a real path
		}
		ex.model, ex.modelOK = m, true
	}
	ex.recordViolation(msg, ex.model)
}

func (ex *Exec) recordViolation(msg string, model map[string]uint64) {
	v := &Violation{Msg: msg, Model: model, Trail: trailString(ex.trail)}
	v.Inputs, v.Draws = ex.snapshot(model)
	ex.violation = append(ex.violation, v)
}

// snapshot evaluates all recorded inputs and draws under model.
func (ex *Exec) snapshot(model map[string]uint64) ([]InputRec, []DrawRec) {
	ins := make([]InputRec, len(ex.inputs))
	for k, in := range ex.inputs {
		in.Val = make([]uint64, len(in.Vars))
		for j, vn := range in.Vars {
			in.Val[j] = model[vn]
		}
		ins[k] = in
	}
	drs := make([]DrawRec, len(ex.draws))
	for k, d := range ex.draws {
		d.Val = make([]uint64, len(d.Terms))
		memo := map[*smt.Term]uint64{}
		for j, t := range d.Terms {
			d.Val[j] = smt.Eval(t, model, memo)
		}
		if d.ArgTerm != nil {
			d.Arg = smt.Eval(d.ArgTerm, model, memo)
		}
		d.Terms, d.ArgTerm = nil, nil
		drs[k] = d
	}
	return ins, drs
}

func (ex *Exec) endOfPath() {
	if !ex.wantWitness {
		return
	}
	if !ex.modelOK {
		r, m := ex.check(nil, false)
		if r != smt.Sat {
			return
		}
		ex.model, ex.modelOK = m, true
	}
	w := Witness{Trail: trailString(ex.trail)}
	w.Inputs, w.Draws = ex.snapshot(ex.model)
	memo := map[*smt.Term]uint64{}
	for _, o := range ex.observed {
		w.Observed = append(w.Observed, o.render(ex.model, memo))
	}
	ex.witnessBuf = append(ex.witnessBuf, w)
}

// sharedInitPkgs are packages whose package-level state is written only by
// their own init (pure tables). Their init runs once per program and the
// resulting globals are shared read-only by all paths and workers.
var sharedInitPkgs = map[string]bool{
	"unicode": true, "unicode/utf8": true, "unicode/utf16": true, "math": true, "math/bits": true,
	"strconv": true, "golang.org/x/tools/internal/stdlib": true, "debug/elf": true, "go/token": true,
	"compress/flate": true, "html": true, "debug/dwarf": true, "debug/macho": true, "debug/pe": true,
	"go/doc/comment": true, "regexp/syntax": true, "encoding/base64": true, "encoding/hex": true, "encoding/binary": true,
	"strings": true, "bytes": true, "fmt": true, "io": true, "unicode/utf8_test": false, "text/tabwriter": true, "sort": true, "slices": true,
	"go/constant": false, "math/big": true, "encoding/base32": true, "mime": false, "hash/crc32": false,
}

var sharedOnce sync.Map // *ssa.Program -> *sharedState

type sharedState struct {
	once sync.Once
	g    map[*ssa.Global]*value
}

func sharedGlobalsOf(cfg *Config) map[*ssa.Global]*value {
	v, _ := sharedOnce.LoadOrStore(cfg.Main.Prog, &sharedState{})
	st := v.(*sharedState)
	st.once.Do(func() {
		ex := &Exec{ctx: smt.NewCtx(), bootstrap: true, reached: map[string]bool{}, stubs: map[string]value{},
			drawBounds: map[string]int64{}, funcs: map[string]int64{}, model: map[string]uint64{}, modelOK: true}
		i := newInterpreter(cfg, ex)
		i.cfg = cfg
		i.bootstrap = true
		i.noSpec = true
		ex.in = i
		defer func() {
			if r := recover(); r != nil {
				fmt.Fprintf(os.Stderr, "gosx: shared init failed (%v); falling back to per-path init\n", r)
				st.g = nil
			}
		}()
		var names []string
		for p := range sharedInitPkgs {
			names = append(names, p)
		}
		sort.Strings(names)
		for _, p := range names {
			if !sharedInitPkgs[p] {
				continue
			}
			for _, pkg := range cfg.Main.Prog.AllPackages() {
				if pkg.Pkg.Path() == p {
					if f := pkg.Func("init"); f != nil {
						call(i, nil, token.NoPos, f, nil)
					}
				}
			}
		}
		st.g = i.globals
	})
	return st.g
}
