package interp

// A small interval domain over the path condition: unsigned ranges of
// variables learnt from assumed comparisons with constants, and the set of
// assumed terms. It decides many branch conditions (ASCII / UTF-8 class tests,
// re-tested conditions) without a solver query. Everything it concludes is
// implied by the path condition, so using it is sound as long as the path
// condition is satisfiable (the explorer's invariant).

import "gosx/smt"

type ival struct{ lo, hi uint64 }

func maxOf(w uint8) uint64 {
	if w >= 64 {
		return ^uint64(0)
	}
	return uint64(1)<<w - 1
}

func (ex *Exec) ivalOf(v *smt.Term) ival {
	if iv, ok := ex.ivals[v]; ok {
		return iv
	}
	return ival{0, maxOf(v.W)}
}

// varConst matches a comparison between a variable and a constant.
// swapped reports that the constant is the left operand.
func varConst(t *smt.Term) (v *smt.Term, c uint64, swapped, ok bool) {
	a, b := t.A[0], t.A[1]
	if a == nil || b == nil {
		return
	}
	switch {
	case a.Op == smt.OVar && b.Op == smt.OConst && a.W > 0:
		return a, b.Val, false, true
	case b.Op == smt.OVar && a.Op == smt.OConst && b.W > 0:
		return b, a.Val, true, true
	}
	return
}

func (ex *Exec) learn(t *smt.Term, positive bool) {
	if ex.ivals == nil {
		ex.ivals = map[*smt.Term]ival{}
		ex.facts = map[*smt.Term]bool{}
	}
	if positive {
		ex.facts[t] = true
	} else {
		ex.facts[t] = false
	}
	switch t.Op {
	case smt.ONot:
		ex.learn(t.A[0], !positive)
		return
	case smt.OAnd:
		if positive {
			ex.learn(t.A[0], true)
			ex.learn(t.A[1], true)
		}
		return
	case smt.OOr:
		if !positive {
			ex.learn(t.A[0], false)
			ex.learn(t.A[1], false)
		}
		return
	case smt.OUlt, smt.OUle, smt.OEq:
	default:
		return
	}
	v, c, swapped, ok := varConst(t)
	if !ok {
		return
	}
	iv := ex.ivalOf(v)
	op := t.Op
	// normalise to "v op c" with op in {<, <=, >, >=, ==, !=}
	lt, le, gt, ge := false, false, false, false
	switch {
	case op == smt.OUlt && !swapped:
		lt = true
	case op == smt.OUle && !swapped:
		le = true
	case op == smt.OUlt && swapped: // c < v
		gt = true
	case op == smt.OUle && swapped: // c <= v
		ge = true
	}
	if !positive { // negate
		lt, le, gt, ge = ge, gt, le, lt
	}
	switch {
	case op == smt.OEq && positive:
		iv.lo, iv.hi = c, c
	case op == smt.OEq && !positive:
		if c == iv.lo && iv.lo < iv.hi {
			iv.lo++
		} else if c == iv.hi && iv.lo < iv.hi {
			iv.hi--
		}
	case lt:
		if c > 0 && c-1 < iv.hi {
			iv.hi = c - 1
		}
	case le:
		if c < iv.hi {
			iv.hi = c
		}
	case gt:
		if c < maxOf(v.W) && c+1 > iv.lo {
			iv.lo = c + 1
		}
	case ge:
		if c > iv.lo {
			iv.lo = c
		}
	}
	if iv.lo <= iv.hi {
		ex.ivals[v] = iv
	}
}

// quick tries to decide t from the learnt facts. known=false means "ask the solver".
func (ex *Exec) quick(t *smt.Term) (known, val bool) {
	if ex.facts == nil {
		return false, false
	}
	if f, ok := ex.facts[t]; ok {
		return true, f
	}
	switch t.Op {
	case smt.ONot:
		k, v := ex.quick(t.A[0])
		return k, !v
	case smt.OAnd:
		k1, v1 := ex.quick(t.A[0])
		k2, v2 := ex.quick(t.A[1])
		if (k1 && !v1) || (k2 && !v2) {
			return true, false
		}
		if k1 && k2 {
			return true, true
		}
		return false, false
	case smt.OOr:
		k1, v1 := ex.quick(t.A[0])
		k2, v2 := ex.quick(t.A[1])
		if (k1 && v1) || (k2 && v2) {
			return true, true
		}
		if k1 && k2 {
			return true, false
		}
		return false, false
	case smt.OUlt, smt.OUle, smt.OEq:
		v, c, swapped, ok := varConst(t)
		if !ok {
			return false, false
		}
		iv := ex.ivalOf(v)
		switch {
		case t.Op == smt.OEq:
			if c < iv.lo || c > iv.hi {
				return true, false
			}
			if iv.lo == iv.hi {
				return true, true
			}
		case t.Op == smt.OUlt && !swapped: // v < c
			if iv.hi < c {
				return true, true
			}
			if iv.lo >= c {
				return true, false
			}
		case t.Op == smt.OUle && !swapped: // v <= c
			if iv.hi <= c {
				return true, true
			}
			if iv.lo > c {
				return true, false
			}
		case t.Op == smt.OUlt && swapped: // c < v
			if c < iv.lo {
				return true, true
			}
			if c >= iv.hi {
				return true, false
			}
		case t.Op == smt.OUle && swapped: // c <= v
			if c <= iv.lo {
				return true, true
			}
			if c > iv.hi {
				return true, false
			}
		}
	}
	return false, false
}
