package interp

// A small interval domain over the path condition: unsigned ranges of
// variables learnt from assumed comparisons with constants, and the set of
// assumed terms. It decides many branch conditions (ASCII / UTF-8 class tests,
// re-tested conditions) without a solver query. Everything it concludes is
// implied by the path condition, so using it is sound as long as the path
// condition is satisfiable (the explorer's invariant).

import "gosx/smt"

type ival struct{ lo, hi uint64 }

func maxOf(w uint8) uint64 {
	if w >= 64 {
		return ^uint64(0)
	}
	return uint64(1)<<w - 1
}

func (ex *Exec) ivalOf(v *smt.Term) ival {
	if iv, ok := ex.ivals[v]; ok {
		return iv
	}
	return ival{0, maxOf(v.W)}
}

// rangeOf is a sound unsigned interval for bit-vector term t under the learnt
// variable intervals: a small abstract interpreter over the term DAG. Anything
// it does not understand (or that may wrap around) is the full range.
func (ex *Exec) rangeOf(t *smt.Term) ival {
	if t.W == 0 {
		return ival{0, 1}
	}
	if t.Op == smt.OConst {
		return ival{t.Val, t.Val}
	}
	if t.Op == smt.OVar {
		return ex.ivalOf(t)
	}
	if r, ok := ex.rangeMemo[t]; ok {
		return r
	}
	top := ival{0, maxOf(t.W)}
	r := top
	switch t.Op {
	case smt.OZext:
		r = ex.rangeOf(t.A[0])
	case smt.OExtract:
		lo := uint8(t.Val & 0xff)
		a := ex.rangeOf(t.A[0])
		if lo == 0 && a.hi <= top.hi {
			r = a
		} else if a.hi>>lo <= top.hi {
			r = ival{a.lo >> lo, a.hi >> lo}
		}
	case smt.OConcat:
		h, l := ex.rangeOf(t.A[0]), ex.rangeOf(t.A[1])
		w := t.A[1].W
		r = ival{h.lo<<w | l.lo, h.hi<<w | l.hi}
		if h.lo != h.hi {
			r = ival{h.lo << w, h.hi<<w | maxOf(w)}
		}
	case smt.OIte:
		a, b := ex.rangeOf(t.A[1]), ex.rangeOf(t.A[2])
		r = ival{min(a.lo, b.lo), max(a.hi, b.hi)}
	case smt.OBvAdd:
		a, b := ex.rangeOf(t.A[0]), ex.rangeOf(t.A[1])
		if a.hi <= top.hi-b.hi { // no wrap-around
			r = ival{a.lo + b.lo, a.hi + b.hi}
		}
	case smt.OBvSub:
		a, b := ex.rangeOf(t.A[0]), ex.rangeOf(t.A[1])
		if a.lo >= b.hi { // never negative
			r = ival{a.lo - b.hi, a.hi - b.lo}
		}
	case smt.OBvAnd:
		a, b := ex.rangeOf(t.A[0]), ex.rangeOf(t.A[1])
		r = ival{0, min(a.hi, b.hi)}
	case smt.OBvOr, smt.OBvXor:
		a, b := ex.rangeOf(t.A[0]), ex.rangeOf(t.A[1])
		m := a.hi | b.hi
		for k := uint(1); k < 64; k <<= 1 { // round up to 2^n-1
			m |= m >> k
		}
		r = ival{0, m}
		if t.Op == smt.OBvOr {
			r.lo = max(a.lo, b.lo)
		}
	case smt.OBvLshr:
		if t.A[1].Op == smt.OConst && t.A[1].Val < 64 {
			a := ex.rangeOf(t.A[0])
			r = ival{a.lo >> t.A[1].Val, a.hi >> t.A[1].Val}
		} else {
			r = ival{0, ex.rangeOf(t.A[0]).hi}
		}
	case smt.OBvShl:
		if t.A[1].Op == smt.OConst && t.A[1].Val < 64 {
			a := ex.rangeOf(t.A[0])
			k := t.A[1].Val
			if a.hi <= top.hi>>k {
				r = ival{a.lo << k, a.hi << k}
			}
		}
	case smt.OBvUrem:
		a, b := ex.rangeOf(t.A[0]), ex.rangeOf(t.A[1])
		if b.lo > 0 { // x % 0 = x in SMT-LIB
			r = ival{0, min(a.hi, b.hi-1)}
		}
	case smt.OBvUdiv:
		a, b := ex.rangeOf(t.A[0]), ex.rangeOf(t.A[1])
		if b.lo > 0 {
			r = ival{a.lo / b.hi, a.hi / b.lo}
		}
	case smt.OBvMul:
		a, b := ex.rangeOf(t.A[0]), ex.rangeOf(t.A[1])
		if a.hi == 0 || b.hi <= top.hi/a.hi {
			r = ival{a.lo * b.lo, a.hi * b.hi}
		}
	}
	if r.lo > r.hi || r.hi > top.hi {
		r = top
	}
	if ex.rangeMemo == nil {
		ex.rangeMemo = map[*smt.Term]ival{}
	}
	ex.rangeMemo[t] = r
	return r
}

// varConst matches a comparison between a variable and a constant.
// swapped reports that the constant is the left operand.
func varConst(t *smt.Term) (v *smt.Term, c uint64, swapped, ok bool) {
	a, b := t.A[0], t.A[1]
	if a == nil || b == nil {
		return
	}
	switch {
	case a.Op == smt.OVar && b.Op == smt.OConst && a.W > 0:
		return a, b.Val, false, true
	case b.Op == smt.OVar && a.Op == smt.OConst && b.W > 0:
		return b, a.Val, true, true
	}
	return
}

func (ex *Exec) learn(t *smt.Term, positive bool) {
	if ex.ivals == nil {
		ex.ivals = map[*smt.Term]ival{}
		ex.facts = map[*smt.Term]bool{}
	}
	if positive {
		ex.facts[t] = true
	} else {
		ex.facts[t] = false
	}
	switch t.Op {
	case smt.ONot:
		ex.learn(t.A[0], !positive)
		return
	case smt.OAnd:
		if positive {
			ex.learn(t.A[0], true)
			ex.learn(t.A[1], true)
		}
		return
	case smt.OOr:
		if !positive {
			ex.learn(t.A[0], false)
			ex.learn(t.A[1], false)
		}
		return
	case smt.OUlt, smt.OUle, smt.OEq:
	default:
		return
	}
	v, c, swapped, ok := varConst(t)
	if !ok {
		return
	}
	iv := ex.ivalOf(v)
	op := t.Op
	// normalise to "v op c" with op in {<, <=, >, >=, ==, !=}
	lt, le, gt, ge := false, false, false, false
	switch {
	case op == smt.OUlt && !swapped:
		lt = true
	case op == smt.OUle && !swapped:
		le = true
	case op == smt.OUlt && swapped: // c < v
		gt = true
	case op == smt.OUle && swapped: // c <= v
		ge = true
	}
	if !positive { // negate
		lt, le, gt, ge = ge, gt, le, lt
	}
	switch {
	case op == smt.OEq && positive:
		iv.lo, iv.hi = c, c
	case op == smt.OEq && !positive:
		if c == iv.lo && iv.lo < iv.hi {
			iv.lo++
		} else if c == iv.hi && iv.lo < iv.hi {
			iv.hi--
		}
	case lt:
		if c > 0 && c-1 < iv.hi {
			iv.hi = c - 1
		}
	case le:
		if c < iv.hi {
			iv.hi = c
		}
	case gt:
		if c < maxOf(v.W) && c+1 > iv.lo {
			iv.lo = c + 1
		}
	case ge:
		if c > iv.lo {
			iv.lo = c
		}
	}
	if iv.lo <= iv.hi && iv != ex.ivalOf(v) {
		ex.ivals[v] = iv
		ex.rangeMemo = nil
	}
}

// quick tries to decide t from the learnt facts. known=false means "ask the solver".
func (ex *Exec) quick(t *smt.Term) (known, val bool) {
	if ex.facts == nil {
		return false, false
	}
	if f, ok := ex.facts[t]; ok {
		return true, f
	}
	switch t.Op {
	case smt.ONot:
		k, v := ex.quick(t.A[0])
		return k, !v
	case smt.OAnd:
		k1, v1 := ex.quick(t.A[0])
		k2, v2 := ex.quick(t.A[1])
		if (k1 && !v1) || (k2 && !v2) {
			return true, false
		}
		if k1 && k2 {
			return true, true
		}
		return false, false
	case smt.OOr:
		k1, v1 := ex.quick(t.A[0])
		k2, v2 := ex.quick(t.A[1])
		if (k1 && v1) || (k2 && v2) {
			return true, true
		}
		if k1 && k2 {
			return true, false
		}
		return false, false
	case smt.OUlt, smt.OUle, smt.OEq, smt.OSlt, smt.OSle:
		a, b := t.A[0], t.A[1]
		if a == nil || b == nil || a.W == 0 {
			return false, false
		}
		ra, rb := ex.rangeOf(a), ex.rangeOf(b)
		op := t.Op
		if op == smt.OSlt || op == smt.OSle {
			// both sides known non-negative: signed and unsigned order agree
			if half := maxOf(a.W) >> 1; ra.hi > half || rb.hi > half {
				return false, false
			}
			if op == smt.OSlt {
				op = smt.OUlt
			} else {
				op = smt.OUle
			}
		}
		switch op {
		case smt.OEq:
			if ra.hi < rb.lo || rb.hi < ra.lo {
				return true, false
			}
			if ra.lo == ra.hi && rb.lo == rb.hi {
				return true, true // equal: the ranges are not disjoint
			}
		case smt.OUlt:
			if ra.hi < rb.lo {
				return true, true
			}
			if ra.lo >= rb.hi {
				return true, false
			}
		case smt.OUle:
			if ra.hi <= rb.lo {
				return true, true
			}
			if ra.lo > rb.hi {
				return true, false
			}
		}
	}
	return false, false
}
