package interp

// Ordered maps. Both map representations of the stock interpreter are
// replaced by omap so that iteration is deterministic (insertion order, or an
// explorer-chosen order) and keys may contain symbolic scalars.

import (
	"go/types"
)

type mentry struct {
	key     value
	val     value
	deleted bool
}

type omap struct {
	keyType types.Type
	entries []*mentry
	idx     map[any][]int // hash -> positions in entries (concrete keys only)
	live    int
	symKeys int // number of live entries whose key contains a symbolic value
}

func makeMap(kt types.Type, reserve int64) value {
	return &omap{keyType: kt, idx: make(map[any][]int)}
}

// hashKey returns a comparable Go value that is equal for equal concrete keys.
func hashKey(kt types.Type, k value) any {
	switch k := k.(type) {
	case bool, int, int8, int16, int32, int64, uint, uint8, uint16, uint32, uint64, uintptr,
		float32, float64, complex64, complex128, string, *value, chan value:
		return k
	}
	return hash(kt, kt, k)
}

func (m *omap) len() int {
	if m == nil {
		return 0
	}
	return m.live
}

// find returns the entry for key k, or nil.
func (m *omap) find(i *interpreter, k value) *mentry {
	if m == nil {
		return nil
	}
	if m.symKeys == 0 && !containsSym(k) {
		for _, p := range m.idx[hashKey(m.keyType, k)] {
			e := m.entries[p]
			if !e.deleted && equals(i, m.keyType, e.key, k) {
				return e
			}
		}
		return nil
	}
	// symbolic comparison: fork on equality with each live entry in order
	for _, e := range m.entries {
		if e.deleted {
			continue
		}
		if equals(i, m.keyType, e.key, k) {
			return e
		}
	}
	return nil
}

func (m *omap) lookup(i *interpreter, k value) (value, bool) {
	if e := m.find(i, k); e != nil {
		return e.val, true
	}
	return nil, false
}

func (m *omap) insert(i *interpreter, k, v value) {
	if m == nil {
		panic(runtimeError("assignment to entry in nil map"))
	}
	if e := m.find(i, k); e != nil {
		e.val = v
		return
	}
	e := &mentry{key: k, val: v}
	m.entries = append(m.entries, e)
	m.live++
	if containsSym(k) {
		m.symKeys++
	} else {
		h := hashKey(m.keyType, k)
		m.idx[h] = append(m.idx[h], len(m.entries)-1)
	}
}

func (m *omap) delete(i *interpreter, k value) {
	if m == nil {
		return
	}
	if e := m.find(i, k); e != nil {
		e.deleted = true
		m.live--
		if containsSym(e.key) {
			m.symKeys--
		}
		// keep idx entries: the deleted flag filters them
	}
}

func (m *omap) clear() {
	if m == nil {
		return
	}
	m.entries = nil
	m.idx = make(map[any][]int)
	m.live = 0
	m.symKeys = 0
}

// omapIter iterates in the order chosen at creation.
type omapIter struct {
	m     *omap
	order []int // positions, fixed at creation; later insertions are appended lazily
	pos   int
	next0 int // next entries index not yet in order (for entries added during iteration)
	fixed bool
}

func (it *omapIter) next() tuple {
	for {
		if it.pos < len(it.order) {
			e := it.m.entries[it.order[it.pos]]
			it.pos++
			if e.deleted {
				continue
			}
			return tuple{true, e.key, e.val}
		}
		if it.m != nil && it.next0 < len(it.m.entries) {
			it.order = append(it.order, it.next0)
			it.next0++
			continue
		}
		return tuple{false, nil, nil}
	}
}

func (i *interpreter) rangeMap(fr *frame, m *omap) iter {
	it := &omapIter{m: m}
	if m == nil {
		return it
	}
	// entries may have been reset by delete-all: positions refer to current slice
	var live []int
	for p, e := range m.entries {
		if !e.deleted {
			live = append(live, p)
		}
	}
	it.next0 = len(m.entries)
	it.order = live
	if i.ex != nil && i.ex.symMapOrder && len(live) > 1 && fr != nil && i.mapOrderApplies(fr) {
		it.order = i.ex.chooseOrder(live)
	}
	return it
}
