package interp

// Ordered maps. Both map representations of the stock interpreter are
// replaced by omap so that iteration is deterministic (insertion order, or an
// explorer-chosen order) and keys may contain symbolic scalars.

import (
	"go/types"

	"gosx/smt"
)

type mentry struct {
	key     value
	val     value
	deleted bool
}

type omap struct {
	keyType types.Type
	entries []*mentry
	idx     map[any][]int // hash -> positions in entries (concrete keys only)
	live    int
	symKeys int // number of live entries whose key contains a symbolic value
	// assoc: the map holds symbolic scalar keys and is an association list in
	// which later entries shadow earlier ones (a deleted entry is a tombstone);
	// lookups build ite-merged results instead of forking. len is then unknown.
	assoc bool
}

// keyEqTerm returns the term for k1 == k2 when both are scalars or strings.
func (i *interpreter) keyEqTerm(k1, k2 value) *smt.Term {
	ex := i.ex
	if _, ok := kindOfValue(k1); ok {
		if _, ok2 := kindOfValue(k2); ok2 {
			return ex.ctx.Eq(ex.term(k1), ex.term(k2))
		}
		return nil
	}
	if isStr(k1) && isStr(k2) {
		return ex.strEqTerm(k1, k2)
	}
	return nil
}

// assocLookup returns the ite-merged value and presence for key k, or ok=false
// when the entries cannot be merged (the caller then forks).
func (m *omap) assocLookup(i *interpreter, k value, zeroVal value) (val value, found value, ok bool) {
	ex := i.ex
	val = zeroVal
	var foundT *smt.Term = ex.ctx.False
	for _, e := range m.entries {
		eq := i.keyEqTerm(e.key, k)
		if eq == nil {
			return nil, nil, false
		}
		if eq.IsFalse() {
			continue
		}
		cond := sym{eq, types.Bool}
		var nv value = e.val
		if e.deleted {
			nv = zeroVal
		}
		if eq.IsTrue() {
			val = nv
			foundT = ex.ctx.Bool(!e.deleted)
			continue
		}
		mv, okm := i.mergeValues(cond, nv, val)
		if !okm {
			return nil, nil, false
		}
		val = mv
		foundT = ex.ctx.Ite(eq, ex.ctx.Bool(!e.deleted), foundT)
	}
	return val, mk(foundT, types.Bool), true
}

func makeMap(kt types.Type, reserve int64) value {
	return &omap{keyType: kt, idx: make(map[any][]int)}
}

// hashKey returns a comparable Go value that is equal for equal concrete keys.
func hashKey(kt types.Type, k value) any {
	switch k := k.(type) {
	case bool, int, int8, int16, int32, int64, uint, uint8, uint16, uint32, uint64, uintptr,
		float32, float64, complex64, complex128, string, *value, chan value:
		return k
	}
	return hash(kt, kt, k)
}

func (m *omap) len() int {
	if m == nil {
		return 0
	}
	if m.assoc {
		unmodelled("len of a map with symbolic keys")
	}
	return m.live
}

// find returns the entry for key k, or nil.
func (m *omap) find(i *interpreter, k value) *mentry {
	if m == nil {
		return nil
	}
	if m.symKeys == 0 && !containsSym(k) {
		for _, p := range m.idx[hashKey(m.keyType, k)] {
			e := m.entries[p]
			if !e.deleted && equals(i, m.keyType, e.key, k) {
				return e
			}
		}
		return nil
	}
	// symbolic comparison: fork on equality with each live entry in order
	for _, e := range m.entries {
		if e.deleted {
			continue
		}
		if equals(i, m.keyType, e.key, k) {
			return e
		}
	}
	return nil
}

func (m *omap) lookup(i *interpreter, k value) (value, bool) {
	if e := m.find(i, k); e != nil {
		return e.val, true
	}
	return nil, false
}

func (m *omap) insert(i *interpreter, k, v value) {
	if m == nil {
		panic(runtimeError("assignment to entry in nil map"))
	}
	if m.assoc || (containsSym(k) && i.keyEqTerm(k, k) != nil && m.scalarKeys(i)) {
		// association-list mode: append, shadowing earlier entries
		m.assoc = true
		m.entries = append(m.entries, &mentry{key: k, val: v})
		m.symKeys++
		m.live++
		return
	}
	if e := m.find(i, k); e != nil {
		e.val = v
		return
	}
	e := &mentry{key: k, val: v}
	m.entries = append(m.entries, e)
	m.live++
	if containsSym(k) {
		m.symKeys++
	} else {
		h := hashKey(m.keyType, k)
		m.idx[h] = append(m.idx[h], len(m.entries)-1)
	}
}

// scalarKeys reports whether all current keys are scalars or strings.
func (m *omap) scalarKeys(i *interpreter) bool {
	for _, e := range m.entries {
		if !e.deleted && i.keyEqTerm(e.key, e.key) == nil {
			return false
		}
	}
	return true
}

func (m *omap) delete(i *interpreter, k value) {
	if m == nil {
		return
	}
	if m.assoc || (containsSym(k) && i.keyEqTerm(k, k) != nil && m.scalarKeys(i) && len(m.entries) > 0) {
		m.assoc = true
		m.entries = append(m.entries, &mentry{key: k, deleted: true})
		m.symKeys++
		return
	}
	if e := m.find(i, k); e != nil {
		e.deleted = true
		m.live--
		if containsSym(e.key) {
			m.symKeys--
		}
		// keep idx entries: the deleted flag filters them
	}
}

func (m *omap) clear() {
	if m == nil {
		return
	}
	m.entries = nil
	m.idx = make(map[any][]int)
	m.live = 0
	m.symKeys = 0
}

// omapIter iterates in the order chosen at creation.
type omapIter struct {
	m     *omap
	order []int // positions, fixed at creation; later insertions are appended lazily
	pos   int
	next0 int // next entries index not yet in order (for entries added during iteration)
	fixed bool
}

func (it *omapIter) next() tuple {
	for {
		if it.pos < len(it.order) {
			e := it.m.entries[it.order[it.pos]]
			it.pos++
			if e.deleted {
				continue
			}
			return tuple{true, e.key, e.val}
		}
		if it.m != nil && it.next0 < len(it.m.entries) {
			it.order = append(it.order, it.next0)
			it.next0++
			continue
		}
		return tuple{false, nil, nil}
	}
}

func (i *interpreter) rangeMap(fr *frame, m *omap) iter {
	it := &omapIter{m: m}
	if m == nil {
		return it
	}
	if m.assoc {
		// decide (forking where the keys allow both) which entries are live:
		// an entry is shadowed by any later entry with an equal key
		var live []int
		for p := len(m.entries) - 1; p >= 0; p-- {
			shadowed := false
			for q := p + 1; q < len(m.entries); q++ {
				if equals(i, m.keyType, m.entries[p].key, m.entries[q].key) {
					shadowed = true
					break
				}
			}
			if !shadowed && !m.entries[p].deleted {
				live = append([]int{p}, live...)
			}
		}
		it.next0 = len(m.entries)
		it.order = live
		it.fixed = true
		if i.ex != nil && i.ex.symMapOrder && len(live) > 1 && fr != nil && i.mapOrderApplies(fr) {
			it.order = i.ex.chooseOrderFor(m, live)
		}
		return it
	}
	// entries may have been reset by delete-all: positions refer to current slice
	var live []int
	for p, e := range m.entries {
		if !e.deleted {
			live = append(live, p)
		}
	}
	it.next0 = len(m.entries)
	it.order = live
	if i.ex != nil && i.ex.symMapOrder && len(live) > 1 && fr != nil && i.mapOrderApplies(fr) {
		it.order = i.ex.chooseOrderFor(m, live)
	}
	return it
}
