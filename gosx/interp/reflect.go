// Copyright 2013 The Go Authors. All rights reserved.
// Use of this source code is governed by a BSD-style
// license that can be found in the LICENSE file.

package interp

// Emulated "reflect" package.
//
// We completely replace the built-in "reflect" package.
// The only thing clients can depend upon are that reflect.Type is an
// interface and reflect.Value is an (opaque) struct.

import (
	"fmt"
	"go/token"
	"go/types"
	"reflect"
	"unsafe"

	"golang.org/x/tools/go/ssa"
)

type opaqueType struct {
	types.Type
	name string
}

func (t *opaqueType) String() string { return t.name }

// A bogus "reflect" type-checker package.  Shared across interpreters.
var reflectTypesPackage = types.NewPackage("reflect", "reflect")

// rtype is the concrete type the interpreter uses to implement the
// reflect.Type interface.
//
// type rtype <opaque>
var rtypeType = makeNamedType("rtype", &opaqueType{nil, "rtype"})

// error is an (interpreted) named type whose underlying type is string.
// The interpreter uses it for all implementations of the built-in error
// interface that it creates.
// We put it in the "reflect" package for expedience.
//
// type error string
var errorType = makeNamedType("error", &opaqueType{nil, "error"})

func makeNamedType(name string, underlying types.Type) *types.Named {
	obj := types.NewTypeName(token.NoPos, reflectTypesPackage, name, nil)
	return types.NewNamed(obj, underlying, nil)
}

func makeReflectValue(t types.Type, v value) value {
	return structure{rtype{t}, v, nil}
}

// makeReflectValueAt is an addressable reflect.Value: Set writes through p.
func makeReflectValueAt(t types.Type, p *value) value {
	return structure{rtype{t}, *p, p}
}

func rV2A(v value) *value {
	s := v.(structure)
	if len(s) > 2 {
		if p, ok := s[2].(*value); ok {
			return p
		}
	}
	return nil
}

// Given a reflect.Value, returns its rtype.
func rV2T(v value) rtype {
	return v.(structure)[0].(rtype)
}

// Given a reflect.Value, returns the underlying interpreter value.
func rV2V(v value) value {
	return v.(structure)[1]
}

// makeReflectType boxes up an rtype in a reflect.Type interface.
func makeReflectType(rt rtype) value {
	return iface{rtypeType, rt}
}

func ext۰reflect۰rtype۰Bits(fr *frame, args []value) value {
	// Signature: func (t reflect.rtype) int
	rt := args[0].(rtype).t
	basic, ok := rt.Underlying().(*types.Basic)
	if !ok {
		panic(fmt.Sprintf("reflect.Type.Bits(%T): non-basic type", rt))
	}
	return int(fr.i.sizes.Sizeof(basic)) * 8
}

func ext۰reflect۰rtype۰Elem(fr *frame, args []value) value {
	// Signature: func (t reflect.rtype) reflect.Type
	return makeReflectType(rtype{args[0].(rtype).t.Underlying().(interface {
		Elem() types.Type
	}).Elem()})
}

func ext۰reflect۰rtype۰Field(fr *frame, args []value) value {
	// Signature: func (t reflect.rtype, i int) reflect.StructField
	st := args[0].(rtype).t.Underlying().(*types.Struct)
	i := args[1].(int)
	f := st.Field(i)
	return structure{
		f.Name(),
		f.Pkg().Path(),
		makeReflectType(rtype{f.Type()}),
		st.Tag(i),
		0,         // TODO(adonovan): offset
		[]value{}, // TODO(adonovan): indices
		f.Anonymous(),
	}
}

func ext۰reflect۰rtype۰In(fr *frame, args []value) value {
	// Signature: func (t reflect.rtype, i int) int
	i := args[1].(int)
	return makeReflectType(rtype{args[0].(rtype).t.(*types.Signature).Params().At(i).Type()})
}

func ext۰reflect۰rtype۰Kind(fr *frame, args []value) value {
	// Signature: func (t reflect.rtype) uint
	return uint(reflectKind(args[0].(rtype).t))
}

func ext۰reflect۰rtype۰NumField(fr *frame, args []value) value {
	// Signature: func (t reflect.rtype) int
	return args[0].(rtype).t.Underlying().(*types.Struct).NumFields()
}

func ext۰reflect۰rtype۰NumIn(fr *frame, args []value) value {
	// Signature: func (t reflect.rtype) int
	return args[0].(rtype).t.Underlying().(*types.Signature).Params().Len()
}

func ext۰reflect۰rtype۰NumMethod(fr *frame, args []value) value {
	// Signature: func (t reflect.rtype) int
	return fr.i.prog.MethodSets.MethodSet(args[0].(rtype).t).Len() // beware: falsely reports generic methods
}

func ext۰reflect۰rtype۰NumOut(fr *frame, args []value) value {
	// Signature: func (t reflect.rtype) int
	return args[0].(rtype).t.Underlying().(*types.Signature).Results().Len()
}

func ext۰reflect۰rtype۰Out(fr *frame, args []value) value {
	// Signature: func (t reflect.rtype, i int) int
	i := args[1].(int)
	return makeReflectType(rtype{args[0].(rtype).t.Underlying().(*types.Signature).Results().At(i).Type()})
}

func ext۰reflect۰rtype۰Size(fr *frame, args []value) value {
	// Signature: func (t reflect.rtype) uintptr
	return uintptr(fr.i.sizes.Sizeof(args[0].(rtype).t))
}

func ext۰reflect۰rtype۰String(fr *frame, args []value) value {
	// Signature: func (t reflect.rtype) string
	return args[0].(rtype).t.String()
}

func ext۰reflect۰New(fr *frame, args []value) value {
	// Signature: func (t reflect.Type) reflect.Value
	t := args[0].(iface).v.(rtype).t
	alloc := zero(t)
	return makeReflectValue(types.NewPointer(t), &alloc)
}

func ext۰reflect۰SliceOf(fr *frame, args []value) value {
	// Signature: func (t reflect.rtype) Type
	return makeReflectType(rtype{types.NewSlice(args[0].(iface).v.(rtype).t)})
}

func ext۰reflect۰TypeOf(fr *frame, args []value) value {
	// Signature: func (t reflect.rtype) Type
	return makeReflectType(rtype{args[0].(iface).t})
}

func ext۰reflect۰ValueOf(fr *frame, args []value) value {
	// Signature: func (interface{}) reflect.Value
	itf := args[0].(iface)
	return makeReflectValue(itf.t, itf.v)
}

func ext۰reflect۰Zero(fr *frame, args []value) value {
	// Signature: func (t reflect.Type) reflect.Value
	t := args[0].(iface).v.(rtype).t
	return makeReflectValue(t, zero(t))
}

func reflectKind(t types.Type) reflect.Kind {
	switch t := t.(type) {
	case *types.Named, *types.Alias:
		return reflectKind(t.Underlying())
	case *types.Basic:
		switch t.Kind() {
		case types.Bool:
			return reflect.Bool
		case types.Int:
			return reflect.Int
		case types.Int8:
			return reflect.Int8
		case types.Int16:
			return reflect.Int16
		case types.Int32:
			return reflect.Int32
		case types.Int64:
			return reflect.Int64
		case types.Uint:
			return reflect.Uint
		case types.Uint8:
			return reflect.Uint8
		case types.Uint16:
			return reflect.Uint16
		case types.Uint32:
			return reflect.Uint32
		case types.Uint64:
			return reflect.Uint64
		case types.Uintptr:
			return reflect.Uintptr
		case types.Float32:
			return reflect.Float32
		case types.Float64:
			return reflect.Float64
		case types.Complex64:
			return reflect.Complex64
		case types.Complex128:
			return reflect.Complex128
		case types.String:
			return reflect.String
		case types.UnsafePointer:
			return reflect.UnsafePointer
		}
	case *types.Array:
		return reflect.Array
	case *types.Chan:
		return reflect.Chan
	case *types.Signature:
		return reflect.Func
	case *types.Interface:
		return reflect.Interface
	case *types.Map:
		return reflect.Map
	case *types.Pointer:
		return reflect.Pointer
	case *types.Slice:
		return reflect.Slice
	case *types.Struct:
		return reflect.Struct
	}
	panic(fmt.Sprint("unexpected type: ", t))
}

func ext۰reflect۰Value۰Kind(fr *frame, args []value) value {
	// Signature: func (reflect.Value) uint
	if rV2T(args[0]).t == nil {
		return uint(reflect.Invalid) // the zero Value (reflect.ValueOf(nil))
	}
	return uint(reflectKind(rV2T(args[0]).t))
}

func ext۰reflect۰Value۰String(fr *frame, args []value) value {
	// Signature: func (reflect.Value) string
	return toString(rV2V(args[0]))
}

func ext۰reflect۰Value۰Type(fr *frame, args []value) value {
	// Signature: func (reflect.Value) reflect.Type
	return makeReflectType(rV2T(args[0]))
}

func ext۰reflect۰Value۰Uint(fr *frame, args []value) value {
	// Signature: func (reflect.Value) uint64
	switch v := rV2V(args[0]).(type) {
	case uint:
		return uint64(v)
	case uint8:
		return uint64(v)
	case uint16:
		return uint64(v)
	case uint32:
		return uint64(v)
	case uint64:
		return uint64(v)
	case uintptr:
		return uint64(v)
	}
	panic("reflect.Value.Uint")
}

func ext۰reflect۰Value۰Len(fr *frame, args []value) value {
	// Signature: func (reflect.Value) int
	switch v := rV2V(args[0]).(type) {
	case string:
		return len(v)
	case array:
		return len(v)
	case chan value:
		return cap(v)
	case []value:
		return len(v)
	case *omap:
		return v.len()
	case symstr:
		return len(v.b)
	default:
		panic(fmt.Sprintf("reflect.(Value).Len(%v)", v))
	}
}

func ext۰reflect۰Value۰MapIndex(fr *frame, args []value) value {
	// Signature: func (reflect.Value) Value
	tValue := rV2T(args[0]).t.Underlying().(*types.Map).Key()
	k := rV2V(args[1])
	switch m := rV2V(args[0]).(type) {
	case *omap:
		if v, ok := m.lookup(fr.i, k); ok {
			return makeReflectValue(tValue, v)
		}

	default:
		panic(fmt.Sprintf("(reflect.Value).MapIndex(%T, %T)", m, k))
	}
	return makeReflectValue(nil, nil)
}

func ext۰reflect۰Value۰MapKeys(fr *frame, args []value) value {
	// Signature: func (reflect.Value) []Value
	var keys []value
	tKey := rV2T(args[0]).t.Underlying().(*types.Map).Key()
	switch v := rV2V(args[0]).(type) {
	case *omap:
		if v != nil {
			for _, e := range v.entries {
				if !e.deleted {
					keys = append(keys, makeReflectValue(tKey, e.key))
				}
			}
		}

	default:
		panic(fmt.Sprintf("(reflect.Value).MapKeys(%T)", v))
	}
	return keys
}

func ext۰reflect۰Value۰NumField(fr *frame, args []value) value {
	// Signature: func (reflect.Value) int
	return len(rV2V(args[0]).(structure))
}

func ext۰reflect۰Value۰NumMethod(fr *frame, args []value) value {
	// Signature: func (reflect.Value) int
	return fr.i.prog.MethodSets.MethodSet(rV2T(args[0]).t).Len()
}

func ext۰reflect۰Value۰Pointer(fr *frame, args []value) value {
	// Signature: func (v reflect.Value) uintptr
	switch v := rV2V(args[0]).(type) {
	case *value:
		return uintptr(unsafe.Pointer(v))
	case chan value:
		return reflect.ValueOf(v).Pointer()
	case []value:
		return reflect.ValueOf(v).Pointer()
	case *omap:
		return uintptr(unsafe.Pointer(v))
	case *ssa.Function:
		return uintptr(unsafe.Pointer(v))
	case *closure:
		return uintptr(unsafe.Pointer(v))
	default:
		panic(fmt.Sprintf("reflect.(Value).Pointer(%T)", v))
	}
}

func ext۰reflect۰Value۰Index(fr *frame, args []value) value {
	// Signature: func (v reflect.Value, i int) Value
	i := args[1].(int)
	t := rV2T(args[0]).t.Underlying()
	switch v := rV2V(args[0]).(type) {
	case array:
		return makeReflectValueAt(t.(*types.Array).Elem(), &v[i])
	case []value:
		return makeReflectValueAt(t.(*types.Slice).Elem(), &v[i])
	default:
		panic(fmt.Sprintf("reflect.(Value).Index(%T)", v))
	}
}

func ext۰reflect۰Value۰Bool(fr *frame, args []value) value {
	// Signature: func (reflect.Value) bool
	return rV2V(args[0]).(bool)
}

func ext۰reflect۰Value۰CanAddr(fr *frame, args []value) value {
	// Signature: func (v reflect.Value) bool
	// Always false for our representation.
	return false
}

func ext۰reflect۰Value۰CanInterface(fr *frame, args []value) value {
	// Signature: func (v reflect.Value) bool
	// Always true for our representation.
	return true
}

func ext۰reflect۰Value۰Elem(fr *frame, args []value) value {
	// Signature: func (v reflect.Value) reflect.Value
	switch x := rV2V(args[0]).(type) {
	case iface:
		return makeReflectValue(x.t, x.v)
	case *value:
		et := rV2T(args[0]).t.Underlying().(*types.Pointer).Elem()
		if x != nil {
			return makeReflectValueAt(et, x)
		}
		return makeReflectValue(et, nil)
	default:
		panic(fmt.Sprintf("reflect.(Value).Elem(%T)", x))
	}
}

func ext۰reflect۰Value۰Field(fr *frame, args []value) value {
	// Signature: func (v reflect.Value, i int) reflect.Value
	v := args[0]
	i := args[1].(int)
	return makeReflectValue(rV2T(v).t.Underlying().(*types.Struct).Field(i).Type(), rV2V(v).(structure)[i])
}

func ext۰reflect۰Value۰Float(fr *frame, args []value) value {
	// Signature: func (reflect.Value) float64
	switch v := rV2V(args[0]).(type) {
	case float32:
		return float64(v)
	case float64:
		return float64(v)
	}
	panic("reflect.Value.Float")
}

func ext۰reflect۰Value۰Interface(fr *frame, args []value) value {
	// Signature: func (v reflect.Value) interface{}
	return ext۰reflect۰valueInterface(args)
}

func ext۰reflect۰Value۰Int(fr *frame, args []value) value {
	// Signature: func (reflect.Value) int64
	switch x := rV2V(args[0]).(type) {
	case int:
		return int64(x)
	case int8:
		return int64(x)
	case int16:
		return int64(x)
	case int32:
		return int64(x)
	case int64:
		return x
	default:
		panic(fmt.Sprintf("reflect.(Value).Int(%T)", x))
	}
}

func ext۰reflect۰Value۰IsNil(fr *frame, args []value) value {
	// Signature: func (reflect.Value) bool
	switch x := rV2V(args[0]).(type) {
	case *value:
		return x == nil
	case chan value:
		return x == nil
	case *omap:
		return x == nil
	case iface:
		return x.t == nil
	case []value:
		return x == nil
	case *ssa.Function:
		return x == nil
	case *ssa.Builtin:
		return x == nil
	case *closure:
		return x == nil
	default:
		panic(fmt.Sprintf("reflect.(Value).IsNil(%T)", x))
	}
}

func ext۰reflect۰Value۰IsValid(fr *frame, args []value) value {
	// Signature: func (reflect.Value) bool
	return rV2V(args[0]) != nil
}

func ext۰reflect۰Value۰Set(fr *frame, args []value) value {
	p := rV2A(args[0])
	if p == nil {
		panic(targetPanic{iface{t: types.Typ[types.String], v: "reflect: reflect.Value.Set using unaddressable value"}})
	}
	dst := rV2T(args[0]).t
	src := rV2T(args[1])
	v := rV2V(args[1])
	if types.IsInterface(dst) {
		if it, ok := v.(iface); ok {
			v = it
		} else if src.t == nil {
			v = iface{}
		} else {
			v = iface{t: src.t, v: v}
		}
	}
	fr.i.writeCell(p, v)
	return nil
}

func ext۰reflect۰Indirect(fr *frame, args []value) value {
	if _, ok := rV2T(args[0]).t.Underlying().(*types.Pointer); ok {
		return ext۰reflect۰Value۰Elem(fr, args)
	}
	return args[0]
}

func ext۰reflect۰Value۰FieldByName(fr *frame, args []value) value {
	t := rV2T(args[0]).t
	st, ok := t.Underlying().(*types.Struct)
	if !ok {
		panic(fmt.Sprintf("reflect.(Value).FieldByName on %s", t))
	}
	name := args[1].(string)
	for k := 0; k < st.NumFields(); k++ {
		if st.Field(k).Name() == name {
			if p := rV2A(args[0]); p != nil {
				fields := (*p).(structure)
				return makeReflectValueAt(st.Field(k).Type(), &fields[k])
			}
			return makeReflectValue(st.Field(k).Type(), rV2V(args[0]).(structure)[k])
		}
	}
	return makeReflectValue(nil, nil)
}

func ext۰reflect۰valueInterface(args []value) value {
	// Signature: func (v reflect.Value, safe bool) interface{}
	v := args[0].(structure)
	if it, ok := rV2V(v).(iface); ok {
		return it // a value of interface type: its dynamic type and value
	}
	return iface{rV2T(v).t, rV2V(v)}
}

func ext۰reflect۰error۰Error(fr *frame, args []value) value {
	return args[0]
}

// newMethod creates a new method of the specified name, package and receiver type.
func newMethod(pkg *ssa.Package, recvType types.Type, name string) *ssa.Function {
	// TODO(adonovan): fix: hack: currently the only part of Signature
	// that is needed is the "pointerness" of Recv.Type, and for
	// now, we'll set it to always be false since we're only
	// concerned with rtype.  Encapsulate this better.
	sig := types.NewSignatureType(types.NewParam(token.NoPos, nil, "recv", recvType), nil, nil, nil, nil, false)
	fn := pkg.Prog.NewFunction(name, sig, "fake reflect method")
	fn.Pkg = pkg
	return fn
}

// prepareProgram performs the once-per-program mutations.
func prepareProgram(prog *ssa.Program) {
	if r := prog.ImportedPackage("reflect"); r != nil {
		rV := r.Pkg.Scope().Lookup("Value").Type().(*types.Named)

		// delete bodies of the old methods
		mset := prog.MethodSets.MethodSet(rV)
		for method := range mset.Methods() {
			prog.MethodValue(method).Blocks = nil
		}
		mset = prog.MethodSets.MethodSet(types.NewPointer(rV))
		for method := range mset.Methods() {
			if f := prog.MethodValue(method); f != nil && f.Synthetic == "" {
				f.Blocks = nil
			}
		}

		tEface := types.NewInterface(nil, nil).Complete()
		rV.SetUnderlying(types.NewStruct([]*types.Var{
			types.NewField(token.NoPos, r.Pkg, "t", tEface, false), // a lie
			types.NewField(token.NoPos, r.Pkg, "v", tEface, false),
			types.NewField(token.NoPos, r.Pkg, "a", tEface, false), // address of v when addressable (gosx)
		}, nil))
	}
}

func initReflect(i *interpreter) {
	i.reflectPackage = &ssa.Package{
		Prog:    i.prog,
		Pkg:     reflectTypesPackage,
		Members: make(map[string]ssa.Member),
	}

	i.rtypeMethods = methodSet{
		"Bits":      newMethod(i.reflectPackage, rtypeType, "Bits"),
		"Elem":      newMethod(i.reflectPackage, rtypeType, "Elem"),
		"Field":     newMethod(i.reflectPackage, rtypeType, "Field"),
		"In":        newMethod(i.reflectPackage, rtypeType, "In"),
		"Kind":      newMethod(i.reflectPackage, rtypeType, "Kind"),
		"NumField":  newMethod(i.reflectPackage, rtypeType, "NumField"),
		"NumIn":     newMethod(i.reflectPackage, rtypeType, "NumIn"),
		"NumMethod": newMethod(i.reflectPackage, rtypeType, "NumMethod"),
		"NumOut":    newMethod(i.reflectPackage, rtypeType, "NumOut"),
		"Out":       newMethod(i.reflectPackage, rtypeType, "Out"),
		"Size":      newMethod(i.reflectPackage, rtypeType, "Size"),
		"String":    newMethod(i.reflectPackage, rtypeType, "String"),
	}
	i.errorMethods = methodSet{
		"Error": newMethod(i.reflectPackage, errorType, "Error"),
	}
}
