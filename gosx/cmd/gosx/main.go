// Command gosx symbolically executes harness functions injected into the
// packages of /repo and reports the result as JSON.
package main

import (
	"encoding/json"
	"flag"
	"fmt"
	"go/constant"
	"os"
	"path/filepath"
	"runtime/pprof"
	"sort"
	"strings"
	"time"

	"golang.org/x/tools/go/packages"
	"golang.org/x/tools/go/ssa"
	"golang.org/x/tools/go/ssa/ssautil"

	"gosx/interp"
)

type output struct {
	Repo      string
	Package   string
	LoadSecs  float64
	BuildSecs float64
	Results   []*interp.Result
	Errors    []string
}

type multiFlag []string

func (m *multiFlag) String() string     { return strings.Join(*m, ",") }
func (m *multiFlag) Set(v string) error { *m = append(*m, v); return nil }

func main() {
	var (
		repo      = flag.String("repo", "/repo", "repository root")
		harnessD  = flag.String("harnessdir", "/verif/harness", "harness overlay root")
		pkgPath   = flag.String("pkg", "mvdan.cc/garble", "import path of the package holding the harnesses")
		names     = flag.String("harness", "", "comma-separated harness function names")
		workers   = flag.Int("workers", 8, "parallel path workers")
		solver    = flag.String("solver", "z3new", "primary solver backend")
		second    = flag.String("second", "", "cross-check solver backend")
		timeoutMS = flag.Int("timeout", 60000, "per-query timeout (ms)")
		maxDepth  = flag.Int("maxdepth", 2000, "max decisions per path")
		maxSteps  = flag.Int64("maxsteps", 400_000_000, "max SSA instructions per path")
		maxPaths  = flag.Int("maxpaths", 0, "stop after this many paths")
		budget    = flag.Duration("budget", 0, "wall-clock budget per harness")
		witnesses = flag.Int("witnesses", 2, "satisfying models to keep per harness")
		out       = flag.String("out", "", "write JSON here (default stdout)")
		trace     = flag.Bool("trace", false, "trace instructions")
		list      = flag.Bool("list", false, "list harness functions (H_*) and exit")
		nospec    = flag.Bool("nospec", false, "disable if-conversion")
		cross     = flag.Bool("crosscheck", false, "answer every deciding query with both solvers")
		extra     multiFlag
		cpuprof   = flag.String("cpuprofile", "", "write a CPU profile")
		consts    = flag.String("consts", "", "comma-separated function names: print the string constants their SSA uses (JSON) and exit")
	)
	flag.Var(&extra, "overlayfile", "real=virtual: additional overlay file (repeatable)")
	flag.Parse()
	if *cpuprof != "" {
		f, _ := os.Create(*cpuprof)
		pprof.StartCPUProfile(f)
		defer pprof.StopCPUProfile()
	}

	o := &output{Repo: *repo, Package: *pkgPath}
	emit := func() {
		data, _ := json.MarshalIndent(o, "", " ")
		if *out == "" {
			os.Stdout.Write(data)
			os.Stdout.WriteString("\n")
		} else if err := os.WriteFile(*out, data, 0o644); err != nil {
			fmt.Fprintln(os.Stderr, err)
			os.Exit(2)
		}
	}

	overlay := map[string][]byte{}
	err := filepath.Walk(*harnessD, func(p string, info os.FileInfo, err error) error {
		if err != nil || info.IsDir() || !strings.HasSuffix(p, ".go") || strings.HasSuffix(p, "_test.go") {
			return err
		}
		rel, _ := filepath.Rel(*harnessD, p)
		dir, base := filepath.Split(rel)
		dir = strings.TrimSuffix(dir, "/")
		if dir == "root" {
			dir = ""
		} else if strings.HasPrefix(dir, "root/") {
			dir = dir[5:]
		}
		data, err := os.ReadFile(p)
		if err != nil {
			return err
		}
		overlay[filepath.Join(*repo, dir, "zz_verif_"+base)] = data
		return nil
	})
	if err != nil {
		o.Errors = append(o.Errors, err.Error())
		emit()
		os.Exit(2)
	}

	for _, e := range extra {
		real, virt, ok := strings.Cut(e, "=")
		if !ok {
			o.Errors = append(o.Errors, "bad -overlayfile "+e)
			emit()
			os.Exit(2)
		}
		data, err := os.ReadFile(real)
		if err != nil {
			o.Errors = append(o.Errors, err.Error())
			emit()
			os.Exit(2)
		}
		overlay[virt] = data
	}

	t0 := time.Now()
	cfg := &packages.Config{
		Mode:    packages.LoadAllSyntax,
		Dir:     *repo,
		Overlay: overlay,
		Env:     append(os.Environ(), "GOFLAGS=-mod=mod", "GOPROXY=off", "CGO_ENABLED=0"),
	}
	initial, err := packages.Load(cfg, *pkgPath)
	if err != nil {
		o.Errors = append(o.Errors, "load: "+err.Error())
		emit()
		os.Exit(2)
	}
	nerr := 0
	packages.Visit(initial, nil, func(p *packages.Package) {
		for _, e := range p.Errors {
			if nerr < 20 {
				o.Errors = append(o.Errors, "load: "+e.Error())
			}
			nerr++
		}
	})
	if nerr > 0 {
		emit()
		os.Exit(2)
	}
	o.LoadSecs = time.Since(t0).Seconds()
	t1 := time.Now()
	prog, pkgs := ssautil.AllPackages(initial, ssa.InstantiateGenerics)
	prog.Build()
	o.BuildSecs = time.Since(t1).Seconds()
	mainPkg := pkgs[0]
	if mainPkg == nil {
		o.Errors = append(o.Errors, "no SSA package for "+*pkgPath)
		emit()
		os.Exit(2)
	}

	if *consts != "" {
		want := map[string]bool{}
		for _, n := range strings.Split(*consts, ",") {
			want[strings.TrimSpace(n)] = true
		}
		res := map[string][]string{}
		for fn := range ssautil.AllFunctions(prog) {
			if !want[fn.String()] {
				continue
			}
			seen := map[string]bool{}
			var visit func(f *ssa.Function)
			visit = func(f *ssa.Function) {
				for _, b := range f.Blocks {
					for _, in := range b.Instrs {
						for _, op := range in.Operands(nil) {
							if c, ok := (*op).(*ssa.Const); ok && c.Value != nil && c.Value.Kind() == constant.String {
								s := constant.StringVal(c.Value)
								if !seen[s] {
									seen[s] = true
									res[fn.String()] = append(res[fn.String()], s)
								}
							}
						}
					}
				}
				for _, af := range f.AnonFuncs {
					visit(af)
				}
			}
			visit(fn)
			sort.Strings(res[fn.String()])
		}
		data, _ := json.MarshalIndent(res, "", " ")
		if *out == "" {
			os.Stdout.Write(data)
		} else {
			os.WriteFile(*out, data, 0o644)
		}
		return
	}

	if *list {
		var hs []string
		for name, m := range mainPkg.Members {
			if _, ok := m.(*ssa.Function); ok && strings.HasPrefix(name, "H_") {
				hs = append(hs, name)
			}
		}
		sort.Strings(hs)
		fmt.Println(strings.Join(hs, "\n"))
		return
	}

	for _, h := range strings.Split(*names, ",") {
		h = strings.TrimSpace(h)
		if h == "" {
			continue
		}
		c := interp.Config{
			Main:       mainPkg,
			Harness:    h,
			Workers:    *workers,
			Solver:     *solver,
			Second:     *second,
			TimeoutMS:  *timeoutMS,
			MaxDepth:   *maxDepth,
			MaxSteps:   *maxSteps,
			MaxPaths:   *maxPaths,
			Trace:      *trace,
			Witnesses:  *witnesses,
			NoSpec:     *nospec,
			CrossCheck: *cross,
		}
		if *budget > 0 {
			c.Deadline = time.Now().Add(*budget)
		}
		r := interp.Explore(c)
		o.Results = append(o.Results, r)
		fmt.Fprintf(os.Stderr, "gosx: %s: paths=%d infeasible=%d incomplete=%d violations=%d branches=%d wall=%.1fs\n",
			h, r.Paths, r.Infeasible, len(r.Incomplete), len(r.Violations), r.Branches, r.Wall)
	}
	interp.DumpLocalsProf()
	emit()
}
